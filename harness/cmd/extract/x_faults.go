package main

import (
	"fmt"
	"go/ast"
	"go/token"
	"path/filepath"
	"strings"
)

// Facts of the loop's handling of queue errors (C15, lean/QuartzModel/Sched/Faults.lean):
//   - the `switch` of startExecutionLoop: case conditions in order and the argument of timer.Reset in each;
//   - calculateNextTick: what it returns when Head() fails / returns ErrQueueEmpty (RetryInterval in both cases) / succeeds;
//   - the tick sets the back-off state from executeAndReschedule's error and nothing else assigns it
//     (`if err := sched.executeAndReschedule(ctx); err != nil { retryAt = time.Now().Add(sched.opts.RetryInterval) }`
//     on a zero-initialised `var retryAt time.Time`), executeAndReschedule returns fetchAndReschedule's error,
//     fetchAndReschedule returns the Pop()/Push() error, an ErrQueueEmpty from Pop() included unless Size() then answers 0,
//     the dispatch is guarded by `valid`;
//   - every API method returns the error of each queue call it makes.
// Helpers with the prefix wk are in x_wakeup.go.

func init() { register(extractFaults, renderFaults) }

type fqFacts struct {
	LoopCases           [][2]string `json:"loopCases"`
	HeadErrReturns      string      `json:"headErrReturns"`
	HeadEmptyReturns    string      `json:"headEmptyReturns"`
	HeadPositive        bool        `json:"headPositive"`
	StateFromTick       bool        `json:"stateFromTick"`
	SizeGuard           string      `json:"sizeGuard"`
	StateFromArm        bool        `json:"stateFromArm"`
	HeadErrFlag         string      `json:"headErrFlag"`
	HeadEmptyFlag       string      `json:"headEmptyFlag"`
	HeadOkFlag          string      `json:"headOkFlag"`
	ExecReturnsFetchErr bool        `json:"execReturnsFetchErr"`
	PopErrReturned      bool        `json:"popErrReturned"`
	PopEmptyReturned    bool        `json:"popEmptyReturned"`
	PopEmptyUnlessZero  bool        `json:"popEmptyUnlessSizeZero"`
	PushErrReturned     bool        `json:"pushErrReturned"`
	DispatchOnlyIfValid bool        `json:"dispatchOnlyIfValid"`
	APIPropagates       [][2]any    `json:"apiPropagates"`
}

// fqDur classifies a duration expression.
func fqDur(e ast.Expr) string {
	switch {
	case wkSel(e, "sched", "opts", "RetryInterval"):
		return "RetryInterval"
	case wkSel(e, "maxTimerDuration"):
		return "maxTimerDuration"
	}
	if c, ok := e.(*ast.CallExpr); ok && wkSel(c.Fun, "sched", "calculateNextTick") && len(c.Args) == 0 {
		return "calculateNextTick"
	}
	if c, ok := e.(*ast.CallExpr); ok && wkSel(c.Fun, "time", "Until") && len(c.Args) == 1 && fqIsIdent(c.Args[0], "retryAt") {
		return "time.Until(retryAt)"
	}
	return "?" + wkExpr(e)
}

// fqIsRetryAtAssign matches `retryAt = time.Now().Add(sched.opts.RetryInterval)`.
func fqIsRetryAtAssign(st ast.Stmt) bool {
	as, ok := st.(*ast.AssignStmt)
	return ok && as.Tok == token.ASSIGN && len(as.Lhs) == 1 && len(as.Rhs) == 1 && fqIsIdent(as.Lhs[0], "retryAt") &&
		noSpaceFq(wkExpr(as.Rhs[0])) == "time.Now().Add(sched.opts.RetryInterval)"
}

// fqZeroVar: is st `var <name> <type>` without a value?
func fqZeroVar(st ast.Stmt, name string) bool {
	ds, ok := st.(*ast.DeclStmt)
	if !ok {
		return false
	}
	gd, ok := ds.Decl.(*ast.GenDecl)
	if !ok || gd.Tok != token.VAR || len(gd.Specs) != 1 {
		return false
	}
	vs := gd.Specs[0].(*ast.ValueSpec)
	return len(vs.Names) == 1 && vs.Names[0].Name == name && len(vs.Values) == 0
}

// fqSizeGuard classifies how the statements of the loop body before the switch obtain queueSize / err:
//
//	"unguarded"  queueSize, err := sched.queue.Size()                                   (every iteration asks the queue)
//	"guarded"    var queueSize int; var err error; backingOff := time.Now().Before(retryAt);
//	             if !backingOff { queueSize, err = sched.queue.Size() }                 (no call while backing off)
func fqSizeGuard(pre []ast.Stmt) string {
	isSize := func(st ast.Stmt, tok token.Token) bool {
		as, ok := st.(*ast.AssignStmt)
		if !ok || as.Tok != tok || len(as.Lhs) != 2 || len(as.Rhs) != 1 {
			return false
		}
		_, ok = wkCall(as.Rhs[0], "sched", "queue", "Size")
		return ok && fqIsIdent(as.Lhs[0], "queueSize") && fqIsIdent(as.Lhs[1], "err")
	}
	if len(pre) == 1 && isSize(pre[0], token.DEFINE) {
		return "unguarded"
	}
	if len(pre) == 4 && fqZeroVar(pre[0], "queueSize") && fqZeroVar(pre[1], "err") {
		as, ok := pre[2].(*ast.AssignStmt)
		is, ok2 := pre[3].(*ast.IfStmt)
		if ok && ok2 && as.Tok == token.DEFINE && len(as.Lhs) == 1 && len(as.Rhs) == 1 && fqIsIdent(as.Lhs[0], "backingOff") &&
			noSpaceFq(wkExpr(as.Rhs[0])) == "time.Now().Before(retryAt)" && is.Init == nil && is.Else == nil && len(is.Body.List) == 1 &&
			isSize(is.Body.List[0], token.ASSIGN) {
			if u, ok := is.Cond.(*ast.UnaryExpr); ok && u.Op == token.NOT && fqIsIdent(u.X, "backingOff") {
				return "guarded"
			}
		}
	}
	return "?"
}

func fqIsIdent(e ast.Expr, name string) bool {
	id, ok := e.(*ast.Ident)
	return ok && id.Name == name
}

// fqIsErrorsIsEmpty matches errors.Is(err, ErrQueueEmpty).
func fqIsErrorsIsEmpty(e ast.Expr) bool {
	c, ok := e.(*ast.CallExpr)
	return ok && wkSel(c.Fun, "errors", "Is") && len(c.Args) == 2 && fqIsIdent(c.Args[0], "err") && fqIsIdent(c.Args[1], "ErrQueueEmpty")
}

func fqLastReturn(list []ast.Stmt) *ast.ReturnStmt {
	if len(list) == 0 {
		return nil
	}
	r, _ := list[len(list)-1].(*ast.ReturnStmt)
	return r
}

// fqAssignedOnlyAt reports whether the variable name is assigned (=, :=, op=, ++) only inside the given statements.
func fqAssignCount(root ast.Node, name string) int {
	n := 0
	ast.Inspect(root, func(x ast.Node) bool {
		switch s := x.(type) {
		case *ast.AssignStmt:
			for _, l := range s.Lhs {
				if fqIsIdent(l, name) {
					n++
				}
			}
		case *ast.IncDecStmt:
			if fqIsIdent(s.X, name) {
				n++
			}
		case *ast.UnaryExpr:
			if s.Op == token.AND && fqIsIdent(s.X, name) {
				n += 100 // address taken: anything may write it
			}
		}
		return true
	})
	return n
}

// fqErrBlock finds `if err != nil { … }` directly following (in the same block) the statement that assigns err from call.
func fqErrBlock(body *ast.BlockStmt, call *ast.CallExpr) *ast.IfStmt {
	var res *ast.IfStmt
	ast.Inspect(body, func(n ast.Node) bool {
		blk, ok := n.(*ast.BlockStmt)
		if !ok {
			return true
		}
		for k, st := range blk.List {
			if wkAssignsErrFrom(st, call) && k+1 < len(blk.List) {
				if is, ok := blk.List[k+1].(*ast.IfStmt); ok && is.Init == nil && wkErrCond(is.Cond) == -1 {
					res = is
				}
			}
		}
		return true
	})
	return res
}

// fqPropagates: does method return the error of the given queue call unchanged?
//
//	(i)   `return sched.queue.Op(…)`
//	(ii)  `…, err := sched.queue.Op(…); if err != nil { …; return …, err }`
//	(iii) `…, err = sched.queue.Op(…)` (as a statement or as the Init of an if) followed by `if err == nil { … }`
//	      without else, after which control falls, without any further statement, to the method's final `return err`.
func fqPropagates(fd *ast.FuncDecl, call *ast.CallExpr) bool {
	path := wkPath(fd.Body, call)
	if path == nil {
		return false
	}
	// (i)
	for i := len(path) - 2; i >= 0; i-- {
		if r, ok := path[i].(*ast.ReturnStmt); ok {
			return len(r.Results) == 1 && r.Results[0] == ast.Expr(call)
		}
	}
	// the statement carrying the call
	var carrier ast.Stmt
	var carrierIdx int
	for i := len(path) - 1; i >= 0; i-- {
		if st, ok := path[i].(ast.Stmt); ok && wkAssignsErrFrom(st, call) {
			carrier, carrierIdx = st, i
			break
		}
	}
	if carrier == nil || carrierIdx == 0 {
		return false
	}
	var test *ast.IfStmt // the if that tests err right after the call
	switch parent := path[carrierIdx-1].(type) {
	case *ast.IfStmt:
		if parent.Init == carrier {
			test = parent
		}
	case *ast.BlockStmt:
		for k, st := range parent.List {
			if st == carrier && k+1 < len(parent.List) {
				if is, ok := parent.List[k+1].(*ast.IfStmt); ok && is.Init == nil {
					test = is
				}
			}
		}
	}
	if test == nil {
		return false
	}
	switch wkErrCond(test.Cond) {
	case -1: // (ii)
		r := fqLastReturn(test.Body.List)
		if r == nil || len(r.Results) == 0 || !fqIsIdent(r.Results[len(r.Results)-1], "err") {
			return false
		}
		// err must not be reassigned inside the block before the return
		return fqAssignCount(test.Body, "err") == 0
	case 1: // (iii)
		if test.Else != nil {
			return false
		}
		return fqFallsToReturnErr(fd, test)
	}
	return false
}

// fqFallsToReturnErr: after st, control reaches `return …, err` with no statement in between.
func fqFallsToReturnErr(fd *ast.FuncDecl, st ast.Stmt) bool {
	path := wkPath(fd.Body, st)
	for i := len(path) - 1; i >= 1; i-- {
		cur, ok := path[i].(ast.Stmt)
		if !ok {
			return false
		}
		blk, ok := path[i-1].(*ast.BlockStmt)
		if !ok {
			return false
		}
		idx := -1
		for k, s := range blk.List {
			if s == cur {
				idx = k
			}
		}
		if idx < 0 {
			return false
		}
		if idx+1 < len(blk.List) {
			r, ok := blk.List[idx+1].(*ast.ReturnStmt)
			return ok && len(r.Results) >= 1 && fqIsIdent(r.Results[len(r.Results)-1], "err")
		}
		// last statement of its block: the block must be the body of an else-less if; continue from that if
		if i-2 < 0 {
			return false
		}
		outer, ok := path[i-2].(*ast.IfStmt)
		if !ok || outer.Else != nil || outer.Body != blk {
			return false
		}
		i-- // skip the block; the loop's i-- moves to the if
	}
	return false
}

func extractFaults(repo string, fx *Facts) {
	p := load(filepath.Join(repo, "quartz"), "github.com/reugn/go-quartz/quartz")
	ff := &fqFacts{HeadErrReturns: "?", HeadEmptyReturns: "?"}
	fx.Extra["faults"] = ff

	// 1. the switch of the loop and the timer case of the select
	if fd := p.method("StdScheduler", "startExecutionLoop"); fd != nil && fd.Body != nil {
		var loop *ast.ForStmt
		for _, st := range fd.Body.List {
			if f, ok := st.(*ast.ForStmt); ok {
				loop = f
			}
		}
		if loop != nil {
			for k, st := range loop.Body.List {
				sw, ok := st.(*ast.SwitchStmt)
				if !ok || sw.Tag != nil || sw.Init != nil {
					continue
				}
				// err / queueSize / backingOff of the conditions come from the statements just before: the Size() call, guarded
				// by the back-off test or not; nothing else in the loop calls Size() or assigns these variables
				ff.SizeGuard = fqSizeGuard(loop.Body.List[:k])
				if len(wkCalls(loop, "sched", "queue", "Size")) != 1 || fqAssignCount(loop, "queueSize") != 1 || fqAssignCount(loop, "backingOff") > 1 {
					ff.SizeGuard = "?"
				}
				if ff.SizeGuard == "?" {
					fx.miss("faults.sizeBeforeSwitch")
				}
				fx.Where["faults.loopSwitch"] = p.pos(sw)
				armStateCases := 0
				for _, c := range sw.Body.List {
					cc := c.(*ast.CaseClause)
					cond := "default"
					if cc.List != nil {
						var parts []string
						for _, e := range cc.List {
							parts = append(parts, wkExpr(e))
						}
						cond = strings.Join(parts, ", ")
					}
					arm := "?none"
					n := 0
					// `nextTick, headErr := sched.calculateNextTick()` as a statement of the case: the local stands for the call
					tickVar, tickErrVar := "", ""
					for _, b := range cc.Body {
						if as, ok := b.(*ast.AssignStmt); ok && as.Tok == token.DEFINE && len(as.Lhs) == 2 && len(as.Rhs) == 1 {
							if c, ok := as.Rhs[0].(*ast.CallExpr); ok && wkSel(c.Fun, "sched", "calculateNextTick") && len(c.Args) == 0 {
								if a, ok := as.Lhs[0].(*ast.Ident); ok {
									if e, ok := as.Lhs[1].(*ast.Ident); ok {
										tickVar, tickErrVar = a.Name, e.Name
									}
								}
							}
						}
					}
					for _, b := range cc.Body {
						ast.Inspect(b, func(x ast.Node) bool {
							if call, ok := x.(*ast.CallExpr); ok && wkSel(call.Fun, "timer", "Reset") && len(call.Args) == 1 {
								arm = fqDur(call.Args[0])
								if tickVar != "" && fqIsIdent(call.Args[0], tickVar) && fqAssignCount(cc, tickVar) == 1 {
									arm = "calculateNextTick"
								}
								n++
							}
							return true
						})
					}
					// does the case set the back-off deadline? `case err != nil:` unconditionally (a statement of the case body),
					// the default case `if headErr != nil { retryAt = … }` right after the calculateNextTick() statement
					switch {
					case cond == "err != nil":
						for _, b := range cc.Body {
							if fqIsRetryAtAssign(b) {
								armStateCases++
								fx.Where["faults.stateFromArm.size"] = p.pos(b)
							}
						}
					case cond == "default" && tickErrVar != "":
						for _, b := range cc.Body {
							if is, ok := b.(*ast.IfStmt); ok && is.Init == nil && is.Else == nil && len(is.Body.List) == 1 && fqIsRetryAtAssign(is.Body.List[0]) {
								if be, ok := is.Cond.(*ast.BinaryExpr); ok && be.Op == token.NEQ && fqIsIdent(be.X, tickErrVar) && fqIsIdent(be.Y, "nil") {
									armStateCases += 10
									fx.Where["faults.stateFromArm.head"] = p.pos(is)
								}
							}
						}
					}
					if n != 1 {
						arm = fmt.Sprintf("?%d timer.Reset calls", n)
					}
					// a case body must not leave the iteration early
					for _, b := range cc.Body {
						ast.Inspect(b, func(x ast.Node) bool {
							switch x.(type) {
							case *ast.BranchStmt, *ast.ReturnStmt:
								arm = "?leaves the iteration"
							}
							return true
						})
					}
					ff.LoopCases = append(ff.LoopCases, [2]string{cond, arm})
				}
				// both places, once each, and — checked below — no other assignment to retryAt besides the tick's
				ff.StateFromArm = armStateCases == 11
			}
			// the timer case sets the back-off state from the error of executeAndReschedule, and nothing else does:
			//   if err := sched.executeAndReschedule(ctx); err != nil { retryAt = time.Now().Add(sched.opts.RetryInterval) }
			// (or, in the earlier form, failed = sched.executeAndReschedule(ctx) != nil)
			stateVar := ""
			ast.Inspect(loop, func(n ast.Node) bool {
				cc, ok := n.(*ast.CommClause)
				if !ok {
					return true
				}
				es, ok := cc.Comm.(*ast.ExprStmt)
				if !ok {
					return true
				}
				u, ok := es.X.(*ast.UnaryExpr)
				if !ok || u.Op != token.ARROW || !wkSel(u.X, "timer", "C") {
					return true
				}
				for _, b := range cc.Body {
					switch st := b.(type) {
					case *ast.IfStmt:
						init, ok := st.Init.(*ast.AssignStmt)
						if !ok || st.Else != nil || wkErrCond(st.Cond) != -1 || len(init.Lhs) != 1 || len(init.Rhs) != 1 || !fqIsIdent(init.Lhs[0], "err") || len(st.Body.List) != 1 {
							continue
						}
						if _, ok := wkCall(init.Rhs[0], "sched", "executeAndReschedule"); !ok {
							continue
						}
						as, ok := st.Body.List[0].(*ast.AssignStmt)
						if !ok || as.Tok != token.ASSIGN || len(as.Lhs) != 1 || len(as.Rhs) != 1 || !fqIsIdent(as.Lhs[0], "retryAt") {
							continue
						}
						if noSpaceFq(wkExpr(as.Rhs[0])) == "time.Now().Add(sched.opts.RetryInterval)" {
							stateVar = "retryAt"
							fx.Where["faults.stateFromTick"] = p.pos(as)
						}
					case *ast.AssignStmt:
						if st.Tok != token.ASSIGN || len(st.Lhs) != 1 || len(st.Rhs) != 1 || !fqIsIdent(st.Lhs[0], "failed") {
							continue
						}
						be, ok := st.Rhs[0].(*ast.BinaryExpr)
						if !ok || be.Op != token.NEQ || !fqIsIdent(be.Y, "nil") {
							continue
						}
						if _, ok := wkCall(be.X, "sched", "executeAndReschedule"); ok {
							stateVar = "failed"
							fx.Where["faults.stateFromTick"] = p.pos(st)
						}
					}
				}
				return true
			})
			nAssign := 1
			if ff.StateFromArm {
				nAssign = 3
			}
			if fqAssignCount(fd.Body, "retryAt") != nAssign {
				ff.StateFromArm = false
			}
			if stateVar != "" && fqAssignCount(fd.Body, stateVar) == nAssign {
				// declared without a value: `var retryAt time.Time` / `var failed bool`
				for _, st := range fd.Body.List {
					if ds, ok := st.(*ast.DeclStmt); ok {
						if gd, ok := ds.Decl.(*ast.GenDecl); ok && gd.Tok == token.VAR {
							for _, sp := range gd.Specs {
								vs := sp.(*ast.ValueSpec)
								if len(vs.Names) == 1 && vs.Names[0].Name == stateVar && len(vs.Values) == 0 {
									ff.StateFromTick = true
								}
							}
						}
					}
				}
			}
		}
	}
	if len(ff.LoopCases) == 0 {
		fx.miss("faults.loopSwitch")
	}

	// 2. calculateNextTick
	if fd := p.method("StdScheduler", "calculateNextTick"); fd != nil && fd.Body != nil {
		heads := wkCalls(fd.Body, "sched", "queue", "Head")
		zeroVar := false // `var nextTickDuration time.Duration` without a value
		for _, st := range fd.Body.List {
			if ds, ok := st.(*ast.DeclStmt); ok {
				if gd, ok := ds.Decl.(*ast.GenDecl); ok && gd.Tok == token.VAR {
					for _, sp := range gd.Specs {
						vs := sp.(*ast.ValueSpec)
						if len(vs.Names) == 1 && vs.Names[0].Name == "nextTickDuration" && len(vs.Values) == 0 {
							zeroVar = true
						}
					}
				}
			}
		}
		if len(heads) == 1 {
			if eb := fqErrBlock(fd.Body, heads[0]); eb != nil {
				fx.Where["faults.calculateNextTick"] = p.pos(eb)
				if r := fqLastReturn(eb.Body.List); r != nil && (len(r.Results) == 1 || len(r.Results) == 2) {
					ff.HeadErrReturns = fqDur(r.Results[0])
					if len(r.Results) == 2 && fqAssignCount(eb.Body, "err") == 0 {
						ff.HeadErrFlag = wkExpr(r.Results[1])
					}
				}
				for _, st := range eb.Body.List {
					is, ok := st.(*ast.IfStmt)
					if !ok || is.Init != nil || !fqIsErrorsIsEmpty(is.Cond) {
						continue
					}
					if r := fqLastReturn(is.Body.List); r != nil && (len(r.Results) == 1 || len(r.Results) == 2) {
						ff.HeadEmptyReturns = fqDur(r.Results[0])
						if len(r.Results) == 2 {
							ff.HeadEmptyFlag = wkExpr(r.Results[1])
						}
						if fqIsIdent(r.Results[0], "nextTickDuration") && zeroVar {
							// not assigned before this return
							assignedBefore := false
							ast.Inspect(fd.Body, func(n ast.Node) bool {
								if as, ok := n.(*ast.AssignStmt); ok && as.Pos() < r.Pos() {
									for _, l := range as.Lhs {
										if fqIsIdent(l, "nextTickDuration") {
											assignedBefore = true
										}
									}
								}
								return true
							})
							if !assignedBefore {
								ff.HeadEmptyReturns = "zero"
							}
						}
					}
				}
				// no return of its own for ErrQueueEmpty (the errors.Is branch only logs, or does not exist): if the block's
				// final return is its only way out, the ErrQueueEmpty case returns what any other error returns
				if ff.HeadEmptyReturns == "?" {
					exits := 0
					ast.Inspect(eb.Body, func(n ast.Node) bool {
						switch n.(type) {
						case *ast.ReturnStmt, *ast.BranchStmt:
							exits++
						case *ast.FuncLit:
							return false
						}
						return true
					})
					if exits == 1 && fqLastReturn(eb.Body.List) != nil {
						ff.HeadEmptyReturns = ff.HeadErrReturns
						ff.HeadEmptyFlag = ff.HeadErrFlag
					}
				}
			}
		}
		// success path: nextRunTime := scheduledJob.NextRunTime(); now := NowNano();
		// if nextRunTime > now { nextTickDuration = time.Duration(nextRunTime - now) }; …; return nextTickDuration
		var sawRun, sawNow, sawIf bool
		for _, st := range fd.Body.List {
			switch s := st.(type) {
			case *ast.AssignStmt:
				if len(s.Lhs) == 1 && len(s.Rhs) == 1 {
					if fqIsIdent(s.Lhs[0], "nextRunTime") {
						if _, ok := wkCall(s.Rhs[0], "scheduledJob", "NextRunTime"); ok {
							sawRun = true
						}
					}
					if fqIsIdent(s.Lhs[0], "now") {
						if c, ok := s.Rhs[0].(*ast.CallExpr); ok && fqIsIdent(c.Fun, "NowNano") {
							sawNow = true
						}
					}
				}
			case *ast.IfStmt:
				if be, ok := s.Cond.(*ast.BinaryExpr); ok && be.Op == token.GTR && fqIsIdent(be.X, "nextRunTime") && fqIsIdent(be.Y, "now") && s.Else == nil && len(s.Body.List) == 1 {
					if as, ok := s.Body.List[0].(*ast.AssignStmt); ok && len(as.Lhs) == 1 && fqIsIdent(as.Lhs[0], "nextTickDuration") && len(as.Rhs) == 1 &&
						noSpaceFq(wkExpr(as.Rhs[0])) == "time.Duration(nextRunTime-now)" {
						sawIf = true
					}
				}
			}
		}
		fr := fqLastReturn(fd.Body.List)
		ff.HeadPositive = zeroVar && sawRun && sawNow && sawIf && fr != nil && (len(fr.Results) == 1 || len(fr.Results) == 2) && fqIsIdent(fr.Results[0], "nextTickDuration") &&
			fqAssignCount(fd.Body, "nextTickDuration") == 1
		if fr != nil && len(fr.Results) == 2 {
			ff.HeadOkFlag = wkExpr(fr.Results[1])
		}
		// the error result is `err` of the Head() call where it failed with an error other than ErrQueueEmpty, `nil` everywhere else;
		// there is no return besides these three
		nret := 0
		ast.Inspect(fd.Body, func(n ast.Node) bool {
			if _, ok := n.(*ast.ReturnStmt); ok {
				nret++
			}
			return true
		})
		if !(ff.HeadErrFlag == "err" && ff.HeadEmptyFlag == "nil" && ff.HeadOkFlag == "nil" && nret == 3 && fqAssignCount(fd.Body, "err") == 1) {
			ff.StateFromArm = false
		}
	}
	if ff.HeadErrReturns == "?" {
		fx.miss("faults.calculateNextTick")
	}

	// 3. executeAndReschedule
	if fd := p.method("StdScheduler", "executeAndReschedule"); fd != nil && fd.Body != nil {
		fetches := wkCalls(fd.Body, "sched", "fetchAndReschedule")
		okAssign := false
		if len(fetches) == 1 && len(fd.Body.List) > 0 {
			if as, ok := fd.Body.List[0].(*ast.AssignStmt); ok && len(as.Lhs) == 3 && len(as.Rhs) == 1 && as.Rhs[0] == ast.Expr(fetches[0]) &&
				fqIsIdent(as.Lhs[1], "valid") && fqIsIdent(as.Lhs[2], "err") {
				okAssign = true
			}
		}
		allRet := true
		nret := 0
		ast.Inspect(fd.Body, func(n ast.Node) bool {
			switch r := n.(type) {
			case *ast.FuncLit:
				return false
			case *ast.ReturnStmt:
				nret++
				if len(r.Results) != 1 || !fqIsIdent(r.Results[0], "err") {
					allRet = false
				}
			}
			return true
		})
		ff.ExecReturnsFetchErr = okAssign && allRet && nret >= 1 && fqAssignCount(fd.Body, "err") == 1
		// dispatch guarded by `if valid { … }`
		guarded := okAssign && fqAssignCount(fd.Body, "valid") == 1
		nDispatch := 0
		ast.Inspect(fd.Body, func(n ast.Node) bool {
			isDispatch := false
			switch x := n.(type) {
			case *ast.CallExpr:
				isDispatch = wkSel(x.Fun, "sched", "executeWithRetries")
			case *ast.SendStmt:
				isDispatch = wkSel(x.Chan, "sched", "dispatch") || fqIsIdent(x.Chan, "dispatch")
			}
			if isDispatch {
				nDispatch++
				inValid := false
				for _, anc := range wkPath(fd.Body, n) {
					if is, ok := anc.(*ast.IfStmt); ok && is.Init == nil && fqIsIdent(is.Cond, "valid") {
						for _, a2 := range wkPath(is.Body, n) {
							if a2 == n {
								inValid = true
							}
						}
					}
				}
				if !inValid {
					guarded = false
				}
			}
			return true
		})
		ff.DispatchOnlyIfValid = guarded && nDispatch >= 1
	}

	// 4. fetchAndReschedule
	if fd := p.method("StdScheduler", "fetchAndReschedule"); fd != nil && fd.Body != nil {
		pops := wkCalls(fd.Body, "sched", "queue", "Pop")
		pushes := wkCalls(fd.Body, "sched", "queue", "Push")
		if len(pops) == 1 {
			if eb := fqErrBlock(fd.Body, pops[0]); eb != nil {
				fx.Where["faults.fetchPop"] = p.pos(eb)
				if r := fqLastReturn(eb.Body.List); r != nil && len(r.Results) == 3 && fqIsIdent(r.Results[2], "err") && fqIsIdent(r.Results[1], "false") {
					ff.PopErrReturned = fqAssignCount(eb.Body, "err") == 0
				}
				// the ErrQueueEmpty case. Recognised forms of the errors.Is(err, ErrQueueEmpty) branch:
				//   { …log…; return nil, false, nil }                      -> nil, always
				//   { …log… }  (falls to the block's `return nil, false, err`)   -> returned, always
				//   { …log…; if size, sizeErr := sched.queue.Size(); sizeErr == nil && size == 0 { return nil, false, nil } }
				//                                                          -> returned unless Size() answers 0
				// no such branch at all: ErrQueueEmpty is returned like any other error
				emptyIf := (*ast.IfStmt)(nil)
				for _, st := range eb.Body.List {
					if is, ok := st.(*ast.IfStmt); ok && is.Init == nil && fqIsErrorsIsEmpty(is.Cond) {
						emptyIf = is
					}
				}
				switch {
				case emptyIf == nil:
					ff.PopEmptyReturned = ff.PopErrReturned
				default:
					returns, ownNil, sizeCheck, other := 0, false, false, false
					for _, st := range emptyIf.Body.List {
						switch x := st.(type) {
						case *ast.ExprStmt:
							if c, ok := x.X.(*ast.CallExpr); !ok || !wkSel(c.Fun, "sched", "logger", callName(c)) {
								other = true
							}
						case *ast.ReturnStmt:
							returns++
							ownNil = len(x.Results) == 3 && fqIsIdent(x.Results[2], "nil") && fqIsIdent(x.Results[1], "false")
						case *ast.IfStmt:
							// if size, sizeErr := sched.queue.Size(); sizeErr == nil && size == 0 { return nil, false, nil }
							init, ok := x.Init.(*ast.AssignStmt)
							okShape := ok && x.Else == nil && len(init.Lhs) == 2 && len(init.Rhs) == 1 && fqIsIdent(init.Lhs[0], "size") && fqIsIdent(init.Lhs[1], "sizeErr")
							if okShape {
								_, okShape = wkCall(init.Rhs[0], "sched", "queue", "Size")
							}
							okShape = okShape && noSpaceFq(wkExpr(x.Cond)) == "sizeErr==nil&&size==0" && len(x.Body.List) == 1
							if okShape {
								r, isRet := x.Body.List[0].(*ast.ReturnStmt)
								okShape = isRet && len(r.Results) == 3 && fqIsIdent(r.Results[2], "nil") && fqIsIdent(r.Results[1], "false")
							}
							if okShape && !sizeCheck {
								sizeCheck = true
							} else {
								other = true
							}
						default:
							other = true
						}
					}
					if elseBlk, ok := emptyIf.Else.(*ast.BlockStmt); ok { // the else branch (other errors) may only log
						for _, st := range elseBlk.List {
							es, ok := st.(*ast.ExprStmt)
							if !ok {
								other = true
								continue
							}
							if c, ok := es.X.(*ast.CallExpr); !ok || !wkSel(c.Fun, "sched", "logger", callName(c)) {
								other = true
							}
						}
					} else if emptyIf.Else != nil {
						other = true
					}
					switch {
					case other:
					case returns == 1 && ownNil && !sizeCheck:
						// nil, always: both facts stay false
					case returns == 0 && !sizeCheck:
						ff.PopEmptyReturned = ff.PopErrReturned
					case returns == 0 && sizeCheck:
						ff.PopEmptyReturned = ff.PopErrReturned
						ff.PopEmptyUnlessZero = true
					}
				}
			}
			// valid comes from validateJob(job) of the popped job
			vj := wkCalls(fd.Body, "sched", "validateJob")
			if len(vj) != 1 || len(vj[0].Args) != 1 || !fqIsIdent(vj[0].Args[0], "job") {
				ff.DispatchOnlyIfValid = false
			}
		}
		if len(pushes) == 1 {
			// if err = sched.queue.Push(toSchedule); err != nil { … } else { … }   …   return job, valid, err  (last statement)
			path := wkPath(fd.Body, pushes[0])
			for i := range path {
				if is, ok := path[i].(*ast.IfStmt); ok && is.Init != nil && wkAssignsErrFrom(is.Init, pushes[0]) && wkErrCond(is.Cond) == -1 {
					// the if is a top-level statement, followed only by the final return; err is not touched in its branches
					top := false
					for k, st := range fd.Body.List {
						if st == ast.Stmt(is) && k == len(fd.Body.List)-2 {
							top = true
						}
					}
					r := fqLastReturn(fd.Body.List)
					inBranches := fqAssignCount(is.Body, "err")
					if is.Else != nil {
						inBranches += fqAssignCount(is.Else, "err")
					}
					noEarlyReturn := true
					ast.Inspect(is, func(n ast.Node) bool {
						if _, ok := n.(*ast.ReturnStmt); ok {
							noEarlyReturn = false
						}
						return true
					})
					if top && r != nil && len(r.Results) == 3 && fqIsIdent(r.Results[2], "err") && inBranches == 0 && noEarlyReturn {
						ff.PushErrReturned = true
						fx.Where["faults.fetchPush"] = p.pos(is)
					}
				}
			}
		}
	}
	if !ff.PopErrReturned && !ff.PushErrReturned && !ff.PopEmptyReturned {
		fx.miss("faults.fetchAndReschedule")
	}

	// 5. API methods
	api := []struct{ method, op string }{
		{"ScheduleJob", "Push"}, {"DeleteJob", "Remove"}, {"Clear", "Clear"}, {"GetScheduledJob", "Get"}, {"GetJobKeys", "ScheduledJobs"},
		{"PauseJob", "Get"}, {"PauseJob", "Remove"}, {"PauseJob", "Push"},
		{"ResumeJob", "Get"}, {"ResumeJob", "Remove"}, {"ResumeJob", "Push"},
	}
	for _, a := range api {
		okAll := false
		if fd := p.method("StdScheduler", a.method); fd != nil && fd.Body != nil {
			calls := wkCalls(fd.Body, "sched", "queue", a.op)
			okAll = len(calls) >= 1
			for _, c := range calls {
				if !fqPropagates(fd, c) {
					okAll = false
				}
			}
			if len(calls) == 0 {
				fx.miss("faults.api." + a.method + "." + a.op)
			}
		} else {
			fx.miss("faults.api." + a.method)
		}
		ff.APIPropagates = append(ff.APIPropagates, [2]any{a.method + "." + a.op, okAll})
	}
}

func noSpaceFq(s string) string { return strings.ReplaceAll(s, " ", "") }

func renderFaults(fx *Facts) string {
	ff, _ := fx.Extra["faults"].(*fqFacts)
	if ff == nil {
		ff = &fqFacts{}
	}
	var b strings.Builder
	b.WriteString("namespace Generated.Faults\n\n")
	var cs []string
	for _, c := range ff.LoopCases {
		cs = append(cs, fmt.Sprintf("(%s, %s)", leanStr(c[0]), leanStr(c[1])))
	}
	fmt.Fprintf(&b, "/-- the `switch` of `startExecutionLoop`: (case condition, argument of `timer.Reset`) in source order -/\ndef loopCases : List (String × String) := [%s]\n", strings.Join(cs, ", "))
	b.WriteString("/-- `calculateNextTick`: result when `Head()` fails / returns `ErrQueueEmpty`; the success path is\n    `if nextRunTime > now { d = nextRunTime - now }` on a zero-initialised `d` -/\n")
	fmt.Fprintf(&b, "def headErrReturns : String := %s\ndef headEmptyReturns : String := %s\ndef headPositive : Bool := %s\n", leanStr(ff.HeadErrReturns), leanStr(ff.HeadEmptyReturns), wkBool(ff.HeadPositive))
	fmt.Fprintf(&b, "/-- the timer case sets the back-off state (`retryAt = time.Now().Add(sched.opts.RetryInterval)` when\n    `executeAndReschedule` returns an error); besides the two assignments of `stateFromArm` (if that is true) it is the only\n    assignment to that zero-initialised variable -/\ndef stateFromTick : Bool := %s\n", wkBool(ff.StateFromTick))
	fmt.Fprintf(&b, "/-- how the loop obtains `queueSize, err` before the `switch`: \"unguarded\" = `queueSize, err := sched.queue.Size()` in every\n    iteration; \"guarded\" = zero-initialised, `backingOff := time.Now().Before(retryAt)`, `if !backingOff { queueSize, err = sched.queue.Size() }`\n    (the only `Size()` call and the only assignments of the loop) -/\ndef sizeGuard : String := %s\n", leanStr(ff.SizeGuard))
	fmt.Fprintf(&b, "/-- a failing `Size()` / `Head()` sets the back-off deadline: `retryAt = time.Now().Add(sched.opts.RetryInterval)` is a statement of\n    `case err != nil:`, and of `if headErr != nil { … }` after `nextTick, headErr := sched.calculateNextTick()` in the default case;\n    `calculateNextTick` returns `err` of `Head()` where it failed with an error other than `ErrQueueEmpty` and `nil` in its two other\n    returns; with the tick's these are the only assignments to `retryAt` -/\ndef stateFromArm : Bool := %s\n", wkBool(ff.StateFromArm))
	fmt.Fprintf(&b, "/-- every `return` of `executeAndReschedule` returns the error of `fetchAndReschedule` -/\ndef execReturnsFetchErr : Bool := %s\n", wkBool(ff.ExecReturnsFetchErr))
	fmt.Fprintf(&b, "/-- `fetchAndReschedule`: the `Pop()` error is returned; so is an `ErrQueueEmpty` from `Pop()`; … unless\n    `sched.queue.Size()`, asked in that branch, answers 0 without error (then `nil`); the `Push()` error is returned -/\ndef popErrReturned : Bool := %s\ndef popEmptyReturned : Bool := %s\ndef popEmptyUnlessSizeZero : Bool := %s\ndef pushErrReturned : Bool := %s\n", wkBool(ff.PopErrReturned), wkBool(ff.PopEmptyReturned), wkBool(ff.PopEmptyUnlessZero), wkBool(ff.PushErrReturned))
	fmt.Fprintf(&b, "/-- every dispatch in `executeAndReschedule` is inside `if valid { … }`, `valid` coming from `validateJob` of the popped job -/\ndef dispatchOnlyIfValid : Bool := %s\n", wkBool(ff.DispatchOnlyIfValid))
	var ap []string
	for _, a := range ff.APIPropagates {
		ap = append(ap, fmt.Sprintf("(%s, %s)", leanStr(a[0].(string)), wkBool(a[1].(bool))))
	}
	fmt.Fprintf(&b, "/-- the API method returns the error of this queue call unchanged -/\ndef apiPropagates : List (String × Bool) := [%s]\n", strings.Join(ap, ", "))
	b.WriteString("\nend Generated.Faults\n")
	return b.String()
}
