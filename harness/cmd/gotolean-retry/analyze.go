package main

import (
	"go/ast"
	"go/token"
	"go/types"
	"sort"
	"strconv"
	"strings"
)

// analyze: idiom checks that look beyond the three translated functions, and the facts emitted next to them
func (t *translator) analyze() {
	info := t.qz.info
	type site struct {
		pos    token.Pos
		caller string
		ctxOK  bool
	}
	var retrySites, execSites []site
	for _, f := range t.qz.files {
		for _, d := range f.Decls {
			fd, ok := d.(*ast.FuncDecl)
			if !ok || fd.Body == nil {
				continue
			}
			// the context parameter of the enclosing function
			var ctxParam types.Object
			for _, p := range fd.Type.Params.List {
				for _, n := range p.Names {
					if v, ok := info.Defs[n].(*types.Var); ok && namedIs(v.Type(), "context", "Context") {
						ctxParam = v
					}
				}
			}
			ast.Inspect(fd.Body, func(n ast.Node) bool {
				c, ok := n.(*ast.CallExpr)
				if !ok {
					return true
				}
				s, ok := c.Fun.(*ast.SelectorExpr)
				if !ok {
					return true
				}
				sel, ok := info.Selections[s]
				if !ok || sel.Kind() != types.MethodVal {
					return true
				}
				ctxOK := false
				if len(c.Args) > 0 {
					if id, ok := c.Args[0].(*ast.Ident); ok && ctxParam != nil && info.Uses[id] == ctxParam {
						ctxOK = true
					}
				}
				switch {
				case s.Sel.Name == "executeWithRetries" && ptrTo(info.TypeOf(s.X), quartzPath, "StdScheduler"):
					retrySites = append(retrySites, site{c.Pos(), fd.Name.Name, ctxOK})
				case s.Sel.Name == "Execute" && namedIs(info.TypeOf(s.X), quartzPath, "Job"):
					execSites = append(execSites, site{c.Pos(), fd.Name.Name, ctxOK})
				}
				return true
			})
		}
	}
	sort.Slice(retrySites, func(i, j int) bool { return retrySites[i].pos < retrySites[j].pos })
	sort.Slice(execSites, func(i, j int) bool { return execSites[i].pos < execSites[j].pos })
	names := func(ss []site) string {
		var q []string
		for _, s := range ss {
			q = append(q, leanString(s.caller))
		}
		return "[" + strings.Join(q, ", ") + "]"
	}
	t.facts = append(t.facts,
		"/-- the functions of package quartz that call `executeWithRetries`, one entry per call, in source order -/\ndef executeWithRetriesCallers : List String := "+names(retrySites)+"\n",
		"/-- the functions of package quartz that call `Job.Execute`, one entry per call, in source order -/\ndef executeCallers : List String := "+names(execSites)+"\n")
	ok := len(execSites) > 0
	for _, s := range execSites {
		if s.caller != "executeWithRetries" || !s.ctxOK {
			ok = false
		}
	}
	msg := "Job.Execute is called only in executeWithRetries, with its ctx parameter"
	for _, s := range retrySites {
		if (s.caller != "executeAndReschedule" && s.caller != "startWorkers") || !s.ctxOK {
			ok = false
		}
	}
	if len(retrySites) == 0 {
		ok = false
	}
	t.idiom("callsites", ok, msg+"; executeWithRetries is called only from the translated executeAndReschedule/startWorkers ("+strconv.Itoa(len(retrySites))+" calls), each time with the caller's ctx parameter")

	// defer/recover at the head of executeWithRetries
	if fd := t.qz.funcDecl("StdScheduler", "executeWithRetries"); fd != nil && fd.Body != nil {
		nDefer, nRecover, first := 0, 0, false
		if len(fd.Body.List) > 0 {
			if d, ok := fd.Body.List[0].(*ast.DeferStmt); ok {
				_, first = d.Call.Fun.(*ast.FuncLit)
			}
		}
		ast.Inspect(fd.Body, func(n ast.Node) bool {
			switch x := n.(type) {
			case *ast.DeferStmt:
				nDefer++
			case *ast.CallExpr:
				if id, ok := x.Fun.(*ast.Ident); ok {
					if b, ok := info.Uses[id].(*types.Builtin); ok && b.Name() == "recover" {
						nRecover++
					}
				}
			}
			return true
		})
		inDefer := 0
		if first {
			ast.Inspect(fd.Body.List[0], func(n ast.Node) bool {
				if x, ok := n.(*ast.CallExpr); ok {
					if id, ok := x.Fun.(*ast.Ident); ok {
						if b, ok := info.Uses[id].(*types.Builtin); ok && b.Name() == "recover" {
							inDefer++
						}
					}
				}
				return true
			})
		}
		t.idiom("defer-recover", first && nDefer == 1 && nRecover == 1 && inDefer == 1,
			"executeWithRetries has exactly one defer, it is the first statement, a function literal, and holds the only recover() (found: first="+strconv.FormatBool(first)+", defers="+strconv.Itoa(nDefer)+", recovers="+strconv.Itoa(nRecover)+")")
	}

	// the dispatch channel: made once per run in Start, unbuffered, handed to the loop and the workers of that run
	t.dispatchChannel()
}

func (t *translator) dispatchChannel() {
	info := t.qz.info
	start := t.qz.funcDecl("StdScheduler", "Start")
	loop := t.qz.funcDecl("StdScheduler", "startExecutionLoop")
	capText, why := "", ""
	if start == nil || loop == nil {
		why = "Start or startExecutionLoop not found"
	} else {
		var ch types.Object
		nMake := 0
		ast.Inspect(start.Body, func(n ast.Node) bool {
			as, ok := n.(*ast.AssignStmt)
			if !ok || len(as.Lhs) != 1 || len(as.Rhs) != 1 {
				return true
			}
			c, ok := as.Rhs[0].(*ast.CallExpr)
			if !ok {
				return true
			}
			id, ok := c.Fun.(*ast.Ident)
			if !ok {
				return true
			}
			if b, ok := info.Uses[id].(*types.Builtin); !ok || b.Name() != "make" {
				return true
			}
			ct, ok := info.TypeOf(c.Args[0]).Underlying().(*types.Chan)
			if !ok || !namedIs(ct.Elem(), quartzPath, "ScheduledJob") {
				return true
			}
			lhs, ok := as.Lhs[0].(*ast.Ident)
			if !ok || as.Tok != token.DEFINE {
				why = "the ScheduledJob channel made in Start is not a new local variable"
				return true
			}
			nMake++
			ch = info.Defs[lhs]
			switch len(c.Args) {
			case 1:
				capText = "0"
			case 2:
				if tv := info.Types[c.Args[1]]; tv.Value != nil {
					capText = tv.Value.ExactString()
				} else {
					why = "the capacity of the dispatch channel is not a constant"
				}
			}
			return true
		})
		if nMake != 1 && why == "" {
			why = "Start does not make exactly one ScheduledJob channel"
		}
		passes := func(body *ast.BlockStmt, callee string, obj types.Object) int {
			n := 0
			ast.Inspect(body, func(nd ast.Node) bool {
				c, ok := nd.(*ast.CallExpr)
				if !ok {
					return true
				}
				s, ok := c.Fun.(*ast.SelectorExpr)
				if !ok || s.Sel.Name != callee || len(c.Args) != 2 {
					return true
				}
				if id, ok := c.Args[1].(*ast.Ident); ok && info.Uses[id] == obj {
					n++
				} else {
					n += 100
				}
				return true
			})
			return n
		}
		if why == "" {
			if passes(start.Body, "startExecutionLoop", ch) != 1 || passes(start.Body, "startWorkers", ch) != 1 {
				why = "Start does not hand its dispatch channel to exactly one startExecutionLoop and one startWorkers"
			}
		}
		if why == "" {
			var param types.Object
			for _, p := range loop.Type.Params.List {
				for _, n := range p.Names {
					if v, ok := info.Defs[n].(*types.Var); ok {
						if _, isChan := v.Type().Underlying().(*types.Chan); isChan {
							param = v
						}
					}
				}
			}
			if param == nil || passes(loop.Body, "executeAndReschedule", param) != 1 {
				why = "startExecutionLoop does not pass its channel parameter to its one call of executeAndReschedule"
			}
		}
	}
	if why != "" || capText == "" {
		t.idiom("dispatch-channel", false, why)
		return
	}
	t.facts = append(t.facts, "/-- capacity of the per-run `dispatch` channel made in `Start` (quartz/scheduler.go) -/\ndef dispatchCap : Nat := "+capText+"\n")
	t.idiom("dispatch-channel", true, "Start makes one ScheduledJob channel per run (capacity "+capText+") and hands that value to startExecutionLoop (which passes it to executeAndReschedule) and to startWorkers")
}
