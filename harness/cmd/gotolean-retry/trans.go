package main

import (
	"bytes"
	"fmt"
	"go/ast"
	"go/constant"
	"go/printer"
	"go/token"
	"go/types"
	"strconv"
	"strings"
)

// ---------------------------------------------------------------------------------------------
// small text helpers
// ---------------------------------------------------------------------------------------------

func ind(s string) string {
	lines := strings.Split(s, "\n")
	for i, l := range lines {
		if l != "" {
			lines[i] = "  " + l
		}
	}
	return strings.Join(lines, "\n")
}

func leanString(s string) string {
	return "\"" + strings.NewReplacer("\\", "\\\\", "\"", "\\\"", "\n", "\\n", "\t", "\\t").Replace(s) + "\""
}

func parenType(s string) string {
	if strings.ContainsAny(s, " ×") {
		return "(" + s + ")"
	}
	return s
}

func tuple(parts []string) string {
	if len(parts) == 1 {
		return parts[0]
	}
	return "(" + strings.Join(parts, ", ") + ")"
}

func tupleType(parts []string) string { return strings.Join(parts, " × ") }

// proj is the projection of component j out of a right-nested n-tuple held in v
func proj(v string, j, n int) string {
	s := v
	for k := 0; k < j; k++ {
		s += ".2"
	}
	if j < n-1 {
		s += ".1"
	}
	return s
}

type unsupported struct{ msg string }

func (t *translator) fail(n ast.Node, format string, a ...any) {
	panic(unsupported{t.qz.pos(n) + ": " + fmt.Sprintf(format, a...)})
}

func (t *translator) src(n ast.Node) string {
	var b bytes.Buffer
	_ = printer.Fprint(&b, t.fset, n)
	return strings.Join(strings.Fields(b.String()), " ")
}

// ---------------------------------------------------------------------------------------------
// translator state
// ---------------------------------------------------------------------------------------------

type fieldInfo struct{ name, lean, zero, goType, skipped string }

type structInfo struct {
	name, pos string
	fields    []fieldInfo
}

type closureInfo struct {
	ctor, pos string
	fields    []param
}

type param struct{ name, typ string }

type translator struct {
	fset        *token.FileSet
	qz          *pkgInfo
	repo        string
	sourceFiles []string
	report      []jsonFn
	idioms      map[string]string
	idiomOrder  []string
	missing     []string

	structs    []*structInfo
	structSeen map[string]bool
	closures   []closureInfo
	defs       []string
	facts      []string

	// per top-level function
	fn         *ast.FuncDecl
	recv       types.Object
	rcount     int
	loopCount  int
	litCount   int
	pre        []string // hoisted effect lines of the expression being translated
	flowVar    string   // inside a deferred function literal: the variable holding how the body was left
	unitName   string
	translated map[string]bool

	keyStringChecked, keyStringOK bool
	timerVars                     map[types.Object]bool
}

func newTranslator(fset *token.FileSet, qz *pkgInfo, repo string) *translator {
	return &translator{fset: fset, qz: qz, repo: repo, idioms: map[string]string{}, structSeen: map[string]bool{}}
}

func (t *translator) miss(s string) { t.missing = append(t.missing, s) }

func (t *translator) idiom(name string, ok bool, msg string) {
	if _, seen := t.idioms[name]; !seen {
		t.idiomOrder = append(t.idiomOrder, name)
	}
	if ok {
		t.idioms[name] = "ok: " + msg
	} else {
		t.idioms[name] = "FAILED: " + msg
		t.miss("idiom " + name + ": " + msg)
	}
}

func (t *translator) fresh() string {
	t.rcount++
	return "r" + strconv.Itoa(t.rcount)
}

// ---------------------------------------------------------------------------------------------
// types
// ---------------------------------------------------------------------------------------------

func (t *translator) inQuartz(obj types.Object) bool {
	return obj != nil && obj.Pkg() != nil && obj.Pkg() == t.qz.pkg
}

func namedIs(ty types.Type, pkg, name string) bool {
	n, ok := ty.(*types.Named)
	if !ok {
		return false
	}
	o := n.Obj()
	if pkg == "" {
		return o.Pkg() == nil && o.Name() == name
	}
	return o.Pkg() != nil && o.Pkg().Path() == pkg && o.Name() == name
}

func ptrTo(ty types.Type, pkg, name string) bool {
	p, ok := ty.(*types.Pointer)
	return ok && namedIs(p.Elem(), pkg, name)
}

// isHandle: values that stand for parts of the outside world (the run's context, channels, timers); they are not
// passed around in the translation — every operation on them goes through `Ext` / is a recorded event
func isHandle(ty types.Type) bool {
	if ty == nil {
		return false
	}
	if namedIs(ty, "context", "Context") || ptrTo(ty, "time", "Timer") {
		return true
	}
	_, isChan := ty.Underlying().(*types.Chan)
	return isChan
}

func (t *translator) leanTypeOK(ty types.Type) (string, bool) {
	switch x := ty.(type) {
	case *types.Basic:
		switch {
		case x.Info()&types.IsInteger != 0:
			return "Int", true
		case x.Info()&types.IsBoolean != 0:
			return "Bool", true
		case x.Info()&types.IsString != 0:
			return "String", true
		}
	case *types.Interface:
		if x.NumMethods() == 0 {
			return "Option PanicVal", true // `any`: in this area only the result of recover()
		}
	case *types.Named:
		obj := x.Obj()
		if obj.Pkg() == nil && obj.Name() == "error" {
			return "Option Err", true
		}
		if namedIs(x, "time", "Duration") {
			return "Int", true
		}
		if t.inQuartz(obj) {
			switch x.Underlying().(type) {
			case *types.Struct:
				t.requireStruct(obj.Name())
				return obj.Name(), true
			case *types.Interface:
				if obj.Name() == "ScheduledJob" {
					return "SJ", true
				}
				return "Ref", true
			}
		}
	case *types.Pointer:
		if n, ok := x.Elem().(*types.Named); ok && t.inQuartz(n.Obj()) {
			if _, isStruct := n.Underlying().(*types.Struct); isStruct {
				t.requireStruct(n.Obj().Name())
				return "Option " + n.Obj().Name(), true
			}
		}
	}
	return "", false
}

func (t *translator) leanType(n ast.Node, ty types.Type) string {
	s, ok := t.leanTypeOK(ty)
	if !ok {
		t.fail(n, "type %s is not translated", ty)
	}
	return s
}

func zeroOf(lean string) string {
	switch {
	case lean == "Int":
		return "0"
	case lean == "Bool":
		return "false"
	case lean == "String":
		return "\"\""
	case lean == "Ref":
		return "0"
	case strings.HasPrefix(lean, "Option "):
		return "none"
	}
	return "default"
}

func (t *translator) requireStruct(name string) {
	if t.structSeen[name] {
		return
	}
	t.structSeen[name] = true
	obj := t.qz.pkg.Scope().Lookup(name)
	if obj == nil {
		return
	}
	st, ok := obj.Type().Underlying().(*types.Struct)
	if !ok {
		return
	}
	si := &structInfo{name: name}
	for _, f := range t.qz.files {
		ast.Inspect(f, func(n ast.Node) bool {
			if ts, ok := n.(*ast.TypeSpec); ok && ts.Name.Name == name {
				si.pos = t.qz.pos(ts)
			}
			return true
		})
	}
	for i := 0; i < st.NumFields(); i++ {
		f := st.Field(i)
		lt, ok := t.leanTypeOK(f.Type())
		fi := fieldInfo{name: f.Name(), goType: types.TypeString(f.Type(), func(p *types.Package) string { return p.Name() })}
		if ok && lt != "SJ" {
			fi.lean, fi.zero = lt, zeroOf(lt)
		} else {
			fi.skipped = "type " + fi.goType + " is not translated"
		}
		si.fields = append(si.fields, fi)
	}
	// dependencies first
	t.structs = append(t.structs, si)
}

// ---------------------------------------------------------------------------------------------
// calls that are externals / events
// ---------------------------------------------------------------------------------------------

type callKind int

const (
	callOther callKind = iota
	callLog
	callNewTimer
	callTimerStop
	callCtxErr
	callCtxDone
	callExecute
	callWgAdd
	callWgDone
	callRetries
	callFetch
	callSJJobDetail
	callRecover
	callString
)

var logLevels = map[string]bool{"Trace": true, "Debug": true, "Info": true, "Warn": true, "Error": true}

func (t *translator) isRecv(e ast.Expr) bool {
	id, ok := e.(*ast.Ident)
	return ok && t.recv != nil && t.qz.info.Uses[id] == t.recv
}

// recvField: e is `sched.<field>`
func (t *translator) recvField(e ast.Expr, field string) bool {
	s, ok := e.(*ast.SelectorExpr)
	return ok && s.Sel.Name == field && t.isRecv(s.X)
}

func (t *translator) classify(c *ast.CallExpr) callKind {
	info := t.qz.info
	switch f := c.Fun.(type) {
	case *ast.Ident:
		if b, ok := info.Uses[f].(*types.Builtin); ok && b.Name() == "recover" {
			return callRecover
		}
	case *ast.SelectorExpr:
		if sel, ok := info.Selections[f]; ok && sel.Kind() == types.MethodVal {
			rt := info.TypeOf(f.X)
			name := f.Sel.Name
			switch {
			case namedIs(rt, "context", "Context") && name == "Err":
				return callCtxErr
			case namedIs(rt, "context", "Context") && name == "Done":
				return callCtxDone
			case namedIs(rt, quartzPath, "Job") && name == "Execute":
				return callExecute
			case namedIs(rt, loggerPath, "Logger") && logLevels[name] && t.recvField(f.X, "logger"):
				return callLog
			case ptrTo(rt, "time", "Timer") && name == "Stop":
				return callTimerStop
			case t.recvField(f.X, "wg") && (namedIs(rt, quartzPath, "waitCounter") || namedIs(rt, "sync", "WaitGroup")) && name == "Add":
				return callWgAdd
			case t.recvField(f.X, "wg") && (namedIs(rt, quartzPath, "waitCounter") || namedIs(rt, "sync", "WaitGroup")) && name == "Done":
				return callWgDone
			case t.isRecv(f.X) && name == "executeWithRetries":
				return callRetries
			case t.isRecv(f.X) && name == "fetchAndReschedule":
				return callFetch
			case namedIs(rt, quartzPath, "ScheduledJob") && name == "JobDetail":
				return callSJJobDetail
			case name == "String":
				return callString
			}
		} else if fn, ok := info.Uses[f.Sel].(*types.Func); ok && fn.Pkg() != nil && fn.Pkg().Path() == "time" && fn.Name() == "NewTimer" {
			return callNewTimer
		}
	}
	return callOther
}

// ---------------------------------------------------------------------------------------------
// expressions
// ---------------------------------------------------------------------------------------------

func (t *translator) isNil(e ast.Expr) bool {
	id, ok := e.(*ast.Ident)
	if !ok {
		return false
	}
	_, isNil := t.qz.info.Uses[id].(*types.Nil)
	return isNil
}

func (t *translator) isIntType(e ast.Expr) bool {
	ty := t.qz.info.TypeOf(e)
	if ty == nil {
		return false
	}
	b, ok := ty.Underlying().(*types.Basic)
	return ok && b.Info()&types.IsInteger != 0
}

func (t *translator) expr(e ast.Expr) string {
	info := t.qz.info
	if tv, ok := info.Types[e]; ok && tv.Value != nil {
		switch tv.Value.Kind() {
		case constant.Int:
			return tv.Value.ExactString()
		case constant.Bool:
			return strconv.FormatBool(constant.BoolVal(tv.Value))
		case constant.String:
			return leanString(constant.StringVal(tv.Value))
		}
	}
	switch x := e.(type) {
	case *ast.ParenExpr:
		return t.expr(x.X)
	case *ast.Ident:
		switch obj := info.Uses[x].(type) {
		case *types.Var:
			if obj == t.recv {
				t.fail(x, "the receiver is used as a value")
			}
			if isHandle(obj.Type()) {
				t.fail(x, "%s (a %s) is used as a value", x.Name, obj.Type())
			}
			if obj.Parent() == t.qz.pkg.Scope() {
				t.fail(x, "package-level variable %s", x.Name)
			}
			return x.Name
		}
		t.fail(x, "identifier %s", x.Name)
	case *ast.SelectorExpr:
		sel, ok := info.Selections[x]
		if !ok || sel.Kind() != types.FieldVal {
			t.fail(x, "selector %s", t.src(x))
		}
		if t.recvField(x.X, "opts") {
			t.leanType(x, info.TypeOf(x)) // the field must have a translated type
			t.requireStruct("SchedulerConfig")
			return "env.opts." + x.Sel.Name
		}
		t.leanType(x, info.TypeOf(x))
		base := t.expr(x.X)
		if _, isPtr := info.TypeOf(x.X).(*types.Pointer); isPtr {
			return "(deref " + base + ")." + x.Sel.Name
		}
		return base + "." + x.Sel.Name
	case *ast.UnaryExpr:
		if x.Op == token.NOT {
			return "(!" + t.expr(x.X) + ")"
		}
	case *ast.BinaryExpr:
		switch x.Op {
		case token.EQL, token.NEQ:
			suffix := map[token.Token]string{token.EQL: ".isNone", token.NEQ: ".isSome"}[x.Op]
			if t.isNil(x.Y) {
				return t.atom(x.X) + suffix
			}
			if t.isNil(x.X) {
				return t.atom(x.Y) + suffix
			}
			if t.isIntType(x.X) {
				op := map[token.Token]string{token.EQL: "=", token.NEQ: "≠"}[x.Op]
				return "decide (" + t.expr(x.X) + " " + op + " " + t.expr(x.Y) + ")"
			}
		case token.LSS, token.LEQ, token.GTR, token.GEQ:
			if t.isIntType(x.X) && t.isIntType(x.Y) {
				op := map[token.Token]string{token.LSS: "<", token.LEQ: "≤", token.GTR: ">", token.GEQ: "≥"}[x.Op]
				return "decide (" + t.expr(x.X) + " " + op + " " + t.expr(x.Y) + ")"
			}
		case token.LAND:
			return "(" + t.expr(x.X) + " && " + t.expr(x.Y) + ")"
		case token.LOR:
			return "(" + t.expr(x.X) + " || " + t.expr(x.Y) + ")"
		}
	case *ast.CallExpr:
		switch t.classify(x) {
		case callRecover:
			if t.flowVar == "" {
				t.fail(x, "recover() outside a deferred function literal")
			}
			return "(recoverOf " + t.flowVar + ")"
		case callCtxErr:
			r := t.fresh()
			t.pre = append(t.pre, "let "+r+" := σ.ctxErr X", "let σ := "+r+".1")
			return r + ".2"
		case callSJJobDetail:
			return "(X.JobDetail " + t.expr(x.Fun.(*ast.SelectorExpr).X) + ")"
		}
	}
	t.fail(e, "expression %s is not translated", t.src(e))
	return ""
}

func (t *translator) atom(e ast.Expr) string {
	s := t.expr(e)
	if strings.ContainsAny(s, " ") && !(strings.HasPrefix(s, "(") && strings.HasSuffix(s, ")")) {
		return "(" + s + ")"
	}
	return s
}

// flush returns the hoisted effect lines (each terminated by a newline) and clears them
func (t *translator) flush() string {
	if len(t.pre) == 0 {
		return ""
	}
	s := strings.Join(t.pre, "\n") + "\n"
	t.pre = nil
	return s
}

// pureArgs: the arguments of a logger call are dropped, so they must be free of effects and must not call user code
// (which could panic): besides variables, fields and constants only `(*JobKey).String()` (checked to be a Sprintf of
// the key's own fields) and the getter `ScheduledJob.JobDetail()` are accepted
func (t *translator) pureArgs(c *ast.CallExpr) {
	for _, a := range c.Args {
		ast.Inspect(a, func(n ast.Node) bool {
			if cc, ok := n.(*ast.CallExpr); ok {
				switch t.classify(cc) {
				case callSJJobDetail:
				case callString:
					rt := t.qz.info.TypeOf(cc.Fun.(*ast.SelectorExpr).X)
					if !ptrTo(rt, quartzPath, "JobKey") || !t.jobKeyStringPure() {
						t.fail(cc, "call %s in the arguments of a logger call: only (*JobKey).String() is known not to run user code", t.src(cc))
					}
				default:
					t.fail(cc, "call %s in the arguments of a logger call", t.src(cc))
				}
			}
			return true
		})
	}
}

// jobKeyStringPure: `func (jobKey *JobKey) String() string { return fmt.Sprintf(<constant>, …) }` whose further arguments
// are constants, string fields of the receiver or package-level string variables
func (t *translator) jobKeyStringPure() bool {
	if t.keyStringChecked {
		return t.keyStringOK
	}
	t.keyStringChecked = true
	fd := t.qz.funcDecl("JobKey", "String")
	if fd == nil || fd.Body == nil || len(fd.Body.List) != 1 || len(fd.Recv.List[0].Names) != 1 {
		return false
	}
	recv := t.qz.info.Defs[fd.Recv.List[0].Names[0]]
	ret, ok := fd.Body.List[0].(*ast.ReturnStmt)
	if !ok || len(ret.Results) != 1 {
		return false
	}
	call, ok := ret.Results[0].(*ast.CallExpr)
	if !ok {
		return false
	}
	sel, ok := call.Fun.(*ast.SelectorExpr)
	if !ok {
		return false
	}
	fn, ok := t.qz.info.Uses[sel.Sel].(*types.Func)
	if !ok || fn.Pkg() == nil || fn.Pkg().Path() != "fmt" || fn.Name() != "Sprintf" {
		return false
	}
	for _, a := range call.Args {
		if tv := t.qz.info.Types[a]; tv.Value != nil {
			continue
		}
		if b, ok := t.qz.info.TypeOf(a).Underlying().(*types.Basic); !ok || b.Info()&types.IsString == 0 {
			return false // a value that is not a plain string could have a String/Format method of its own
		}
		if id, ok := a.(*ast.Ident); ok {
			if v, ok := t.qz.info.Uses[id].(*types.Var); ok && v.Parent() == t.qz.pkg.Scope() {
				continue // a package-level string variable (Sep)
			}
			return false
		}
		s, ok := a.(*ast.SelectorExpr)
		if !ok {
			return false
		}
		id, ok := s.X.(*ast.Ident)
		if !ok || t.qz.info.Uses[id] != recv {
			return false
		}
		if b, ok := t.qz.info.TypeOf(a).Underlying().(*types.Basic); !ok || b.Info()&types.IsString == 0 {
			return false // a field that is not a plain string could have a String/Format method of its own
		}
	}
	t.keyStringOK = true
	return true
}

// ---------------------------------------------------------------------------------------------
// statements, continuation-passing
// ---------------------------------------------------------------------------------------------

type kont struct {
	next func() string
	brk  map[string]func() string
	ret  func(n ast.Node, vals []string) string
	pnc  func(n ast.Node) string
}

func (k kont) with(next func() string, brk map[string]func() string) kont {
	nk := kont{next: next, brk: map[string]func() string{}, ret: k.ret, pnc: k.pnc}
	for l, f := range k.brk {
		nk.brk[l] = f
	}
	for l, f := range brk {
		nk.brk[l] = f
	}
	return nk
}

func (t *translator) block(stmts []ast.Stmt, k kont) string {
	if len(stmts) == 0 {
		return k.next()
	}
	return t.stmt(stmts[0], "", k.with(func() string { return t.block(stmts[1:], k) }, nil))
}

// stmt: the Lean term for `s` followed by `k.next` (the rest of the block and what follows it)
func (t *translator) stmt(s ast.Stmt, label string, k kont) string {
	info := t.qz.info
	switch x := s.(type) {
	case *ast.EmptyStmt:
		return k.next()
	case *ast.BlockStmt:
		return t.block(x.List, k)
	case *ast.LabeledStmt:
		if _, ok := x.Stmt.(*ast.ForStmt); !ok {
			t.fail(x, "label on a statement that is not a for loop")
		}
		return t.stmt(x.Stmt, x.Label.Name, k)
	case *ast.ReturnStmt:
		var vals []string
		for _, r := range x.Results {
			vals = append(vals, t.expr(r))
		}
		return t.flush() + k.ret(x, vals)
	case *ast.BranchStmt:
		if x.Tok != token.BREAK {
			t.fail(x, "%s is not translated", x.Tok)
		}
		l := ""
		if x.Label != nil {
			l = x.Label.Name
		}
		f, ok := k.brk[l]
		if !ok {
			t.fail(x, "break without a translated target")
		}
		return f()
	case *ast.ExprStmt:
		c, ok := x.X.(*ast.CallExpr)
		if !ok {
			t.fail(x, "expression statement %s", t.src(x))
		}
		return t.callStmt(c, k)
	case *ast.AssignStmt:
		return t.assign(x, k)
	case *ast.IfStmt:
		head := ""
		if x.Init != nil {
			as, ok := x.Init.(*ast.AssignStmt)
			if !ok {
				t.fail(x.Init, "if-initialiser %s", t.src(x.Init))
			}
			head = t.assign(as, kont{next: func() string { return "" }})
		}
		cond := t.expr(x.Cond)
		head += t.flush()
		thenK := k.with(k.next, nil)
		thenS := t.block(x.Body.List, thenK)
		var elseS string
		switch e := x.Else.(type) {
		case nil:
			elseS = k.next()
		case *ast.BlockStmt:
			elseS = t.block(e.List, k)
		case *ast.IfStmt:
			elseS = t.stmt(e, "", k)
		default:
			t.fail(x.Else, "else branch")
		}
		return head + "if " + cond + " then\n" + ind(thenS) + "\nelse\n" + ind(elseS)
	case *ast.SwitchStmt:
		if x.Init != nil || x.Tag != nil {
			t.fail(x, "switch with initialiser or tag")
		}
		inner := k.with(k.next, map[string]func() string{"": k.next})
		var build func(i int) string
		build = func(i int) string {
			if i == len(x.Body.List) {
				return k.next()
			}
			cc := x.Body.List[i].(*ast.CaseClause)
			for _, st := range cc.Body {
				if b, ok := st.(*ast.BranchStmt); ok && b.Tok == token.FALLTHROUGH {
					t.fail(b, "fallthrough")
				}
			}
			if cc.List == nil {
				if i != len(x.Body.List)-1 {
					t.fail(cc, "default is not the last case of the switch")
				}
				return "-- default (" + t.qz.pos(cc) + ")\n" + t.block(cc.Body, inner)
			}
			if len(cc.List) != 1 {
				t.fail(cc, "case with several conditions")
			}
			cond := t.expr(cc.List[0])
			if len(t.pre) > 0 {
				t.fail(cc, "effect in a case condition")
			}
			return "-- case " + t.src(cc.List[0]) + " (" + t.qz.pos(cc) + ")\nif " + cond + " then\n" + ind(t.block(cc.Body, inner)) + "\nelse\n" + ind(build(i+1))
		}
		return build(0)
	case *ast.SelectStmt:
		return t.selectStmt(x, k)
	case *ast.ForStmt:
		return t.forStmt(x, label, k)
	case *ast.GoStmt:
		lit, ok := x.Call.Fun.(*ast.FuncLit)
		if !ok || len(x.Call.Args) != 0 || lit.Type.Params.NumFields() != 0 || lit.Type.Results.NumFields() != 0 {
			t.fail(x, "go statement that is not `go func() { … }()`")
		}
		t.litCount++
		name := t.fn.Name.Name + ".lit" + strconv.Itoa(t.litCount)
		ctor := t.fn.Name.Name + "_lit" + strconv.Itoa(t.litCount)
		ro, asg := t.freeVars(lit, nil)
		if len(asg) > 0 {
			t.fail(lit, "the goroutine assigns the captured variable %s", asg[0].Name())
		}
		var ps []param
		args := ""
		for _, v := range ro {
			if n := t.assignCount(v); n != 1 {
				t.fail(lit, "captured variable %s is assigned %d times in %s", v.Name(), n, t.fn.Name.Name)
			}
			ps = append(ps, param{v.Name(), t.leanType(lit, v.Type())})
			args += " " + v.Name()
		}
		saveR, saveL := t.rcount, t.loopCount
		t.rcount, t.loopCount = 0, 0
		t.emitUnit(unitSpec{name: name, doc: "Go: " + t.qz.pos(lit) + " the goroutine `go func() { … }()` of " + t.fn.Name.Name, params: ps, stmts: lit.Body.List, node: lit, kind: "goroutine"})
		t.rcount, t.loopCount = saveR, saveL
		t.closures = append(t.closures, closureInfo{ctor: ctor, pos: t.qz.pos(lit), fields: ps})
		return "let σ := σ.emit (Event.go (Closure." + ctor + args + "))\n" + k.next()
	case *ast.DeferStmt:
		t.fail(x, "defer that is not at the head of its function")
	}
	_ = info
	t.fail(s, "statement %T is not translated", s)
	return ""
}

func (t *translator) callStmt(c *ast.CallExpr, k kont) string {
	switch t.classify(c) {
	case callLog:
		if len(c.Args) == 0 {
			t.fail(c, "logger call without a message")
		}
		tv := t.qz.info.Types[c.Args[0]]
		if tv.Value == nil || tv.Value.Kind() != constant.String {
			t.fail(c, "logger message is not a constant string")
		}
		t.pureArgs(c)
		return "let σ := σ.emit (Event.log " + leanString(c.Fun.(*ast.SelectorExpr).Sel.Name) + " " + leanString(constant.StringVal(tv.Value)) + ")\n" + k.next()
	case callTimerStop:
		id, ok := c.Fun.(*ast.SelectorExpr).X.(*ast.Ident)
		if !ok || !t.timerVars[t.qz.info.Uses[id]] {
			t.fail(c, "Stop on a timer that was not made by time.NewTimer in this function")
		}
		return "let σ := σ.emit Event.timerStop\n" + k.next()
	case callWgAdd:
		if len(c.Args) != 1 {
			t.fail(c, "wg.Add")
		}
		return "let σ := σ.emit (Event.wgAdd " + t.atom(c.Args[0]) + ")\n" + k.next()
	case callWgDone:
		return "let σ := σ.emit Event.wgDone\n" + k.next()
	case callRetries:
		if len(c.Args) != 2 || !t.isCtx(c.Args[0]) {
			t.fail(c, "executeWithRetries is not called with the context of the run")
		}
		if !t.translated["executeWithRetries"] {
			t.fail(c, "executeWithRetries is called but was not translated")
		}
		arg := t.atom(c.Args[1])
		return t.flush() + "let σ := executeWithRetries X env σ " + arg + "\n" + k.next()
	}
	t.fail(c, "call %s is not translated", t.src(c))
	return ""
}

// isCtx: the identifier `ctx`, a context.Context that is a parameter of the enclosing top-level function
func (t *translator) isCtx(e ast.Expr) bool {
	id, ok := e.(*ast.Ident)
	if !ok {
		return false
	}
	v, ok := t.qz.info.Uses[id].(*types.Var)
	if !ok || !namedIs(v.Type(), "context", "Context") {
		return false
	}
	for _, f := range t.fn.Type.Params.List {
		for _, n := range f.Names {
			if t.qz.info.Defs[n] == v {
				return t.assignCount(v) == 1
			}
		}
	}
	return false
}

func (t *translator) lhsName(e ast.Expr) (string, types.Object) {
	id, ok := e.(*ast.Ident)
	if !ok {
		t.fail(e, "assignment to %s", t.src(e))
	}
	if id.Name == "_" {
		return "_", nil
	}
	obj := t.qz.info.Defs[id]
	if obj == nil {
		obj = t.qz.info.Uses[id]
	}
	if obj == nil {
		t.fail(e, "unresolved %s", id.Name)
	}
	return id.Name, obj
}

func (t *translator) assign(x *ast.AssignStmt, k kont) string {
	if x.Tok != token.DEFINE && x.Tok != token.ASSIGN {
		t.fail(x, "assignment operator %s", x.Tok)
	}
	if len(x.Rhs) != 1 {
		t.fail(x, "parallel assignment")
	}
	for _, l := range x.Lhs {
		if _, obj := t.lhsName(l); obj != nil && x.Tok == token.ASSIGN {
			if v, ok := obj.(*types.Var); !ok || v.Parent() == t.qz.pkg.Scope() || v.IsField() {
				t.fail(x, "assignment to something that is not a local variable")
			}
		}
	}
	bind := func(i int, val string) string {
		name, obj := t.lhsName(x.Lhs[i])
		if name == "_" {
			return ""
		}
		return "let " + name + " : " + t.leanType(x, obj.Type()) + " := " + val + "\n"
	}
	if c, ok := x.Rhs[0].(*ast.CallExpr); ok {
		switch t.classify(c) {
		case callNewTimer:
			name, obj := t.lhsName(x.Lhs[0])
			if len(x.Lhs) != 1 || len(c.Args) != 1 || name == "_" {
				t.fail(x, "time.NewTimer")
			}
			t.timerVars[obj] = true
			d := t.atom(c.Args[0])
			return t.flush() + "let σ := σ.emit (Event.newTimer " + d + ")\n" + k.next()
		case callExecute:
			if len(x.Lhs) != 1 || len(c.Args) != 1 || !t.isCtx(c.Args[0]) {
				t.fail(x, "Execute is not called with the context of the run")
			}
			name, obj := t.lhsName(x.Lhs[0])
			if name == "_" || t.leanType(x, obj.Type()) != "Option Err" {
				t.fail(x, "the result of Execute is not kept in an error variable")
			}
			job := t.atom(c.Fun.(*ast.SelectorExpr).X)
			r := t.fresh()
			return t.flush() + "let " + r + " := σ.execute X " + job + "\nlet σ := " + r + ".1\n(match " + r + ".2 with\n| .panicked =>\n" +
				ind(k.pnc(c)) + "\n| .returned " + name + " =>\n" + ind(k.next()) + ")"
		case callFetch:
			if len(x.Lhs) != 3 || len(c.Args) != 0 {
				t.fail(x, "fetchAndReschedule")
			}
			r := t.fresh()
			s := "let " + r + " := σ.fetch X\nlet σ := " + r + ".1\n"
			for i := range x.Lhs {
				s += bind(i, proj(r+".2", i, 3))
			}
			return s + k.next()
		}
	}
	if len(x.Lhs) != 1 {
		t.fail(x, "assignment %s", t.src(x))
	}
	val := t.expr(x.Rhs[0])
	return t.flush() + bind(0, val) + k.next()
}

// chanDesc: the channel operand of a select case, by its source text
func (t *translator) chanDesc(e ast.Expr) string {
	ty := t.qz.info.TypeOf(e)
	if ty == nil {
		t.fail(e, "untyped channel expression")
	}
	if _, ok := ty.Underlying().(*types.Chan); !ok {
		t.fail(e, "%s is not a channel", t.src(e))
	}
	switch x := e.(type) {
	case *ast.Ident:
		return x.Name
	case *ast.SelectorExpr:
		if id, ok := x.X.(*ast.Ident); ok && x.Sel.Name == "C" && t.timerVars[t.qz.info.Uses[id]] {
			return t.src(e)
		}
	case *ast.CallExpr:
		if t.classify(x) == callCtxDone && t.isCtx(x.Fun.(*ast.SelectorExpr).X) {
			return t.src(e)
		}
	}
	t.fail(e, "channel expression %s", t.src(e))
	return ""
}

func (t *translator) selectStmt(x *ast.SelectStmt, k kont) string {
	n := len(x.Body.List)
	if n < 2 {
		t.fail(x, "select with fewer than two cases")
	}
	inner := k.with(k.next, map[string]func() string{"": k.next})
	var descs, arms []string
	r := t.fresh()
	for i, cl := range x.Body.List {
		cc := cl.(*ast.CommClause)
		head := ""
		switch c := cc.Comm.(type) {
		case nil:
			t.fail(cc, "select with a default case")
		case *ast.ExprStmt:
			u, ok := c.X.(*ast.UnaryExpr)
			if !ok || u.Op != token.ARROW {
				t.fail(cc, "select case %s", t.src(c))
			}
			descs = append(descs, "Chan.recv "+leanString(t.chanDesc(u.X)))
		case *ast.AssignStmt:
			u, ok := c.Rhs[0].(*ast.UnaryExpr)
			if c.Tok != token.DEFINE || len(c.Lhs) != 1 || len(c.Rhs) != 1 || !ok || u.Op != token.ARROW {
				t.fail(cc, "select case %s", t.src(c))
			}
			ch := t.chanDesc(u.X)
			descs = append(descs, "Chan.recv "+leanString(ch))
			name, obj := t.lhsName(c.Lhs[0])
			r := t.fresh()
			head = "let " + r + " := σ.recv X " + leanString(ch) + "\nlet σ := " + r + ".1\n"
			if name != "_" {
				head += "let " + name + " : " + t.leanType(c, obj.Type()) + " := " + r + ".2\n"
			}
		case *ast.SendStmt:
			ch := t.chanDesc(c.Chan)
			descs = append(descs, "Chan.send "+leanString(ch))
			head = "let σ := σ.emit (Event.send " + leanString(ch) + " " + t.atom(c.Value) + ")\n"
		default:
			t.fail(cc, "select case")
		}
		pat := strconv.Itoa(i)
		if i == n-1 {
			pat = "_"
		}
		arms = append(arms, "| "+pat+" => -- case "+t.src(cc.Comm)+" ("+t.qz.pos(cc)+")\n"+ind(head+t.block(cc.Body, inner)))
	}
	return "let " + r + " := σ.select X [" + strings.Join(descs, ", ") + "]\nlet σ := " + r + ".1\n(match " + r + ".2 with\n" + strings.Join(arms, "\n") + ")"
}

// ---------------------------------------------------------------------------------------------
// variables of a sub-tree
// ---------------------------------------------------------------------------------------------

// freeVars: the local variables of the enclosing function that `node` uses but does not declare, in order of first
// use, split into those only read and those assigned inside `node`.  Handles (context, channels, timers) and the
// receiver are left out.
func (t *translator) freeVars(node ast.Node, exclude map[types.Object]bool) (ro, assigned []*types.Var) {
	info := t.qz.info
	seen := map[*types.Var]bool{}
	var order []*types.Var
	asg := map[*types.Var]bool{}
	consider := func(id *ast.Ident) *types.Var {
		v, ok := info.Uses[id].(*types.Var)
		if !ok || v.IsField() || v == t.recv || v.Parent() == t.qz.pkg.Scope() || isHandle(v.Type()) || exclude[v] {
			return nil
		}
		if v.Pos() >= node.Pos() && v.Pos() < node.End() {
			return nil
		}
		if !seen[v] {
			seen[v] = true
			order = append(order, v)
		}
		return v
	}
	ast.Inspect(node, func(n ast.Node) bool {
		switch x := n.(type) {
		case *ast.Ident:
			consider(x)
		case *ast.AssignStmt:
			if x.Tok != token.DEFINE {
				for _, l := range x.Lhs {
					if id, ok := l.(*ast.Ident); ok {
						if v := consider(id); v != nil {
							asg[v] = true
						}
					}
				}
			}
		case *ast.IncDecStmt:
			if id, ok := x.X.(*ast.Ident); ok {
				if v := consider(id); v != nil {
					asg[v] = true
				}
			}
		}
		return true
	})
	for _, v := range order {
		if asg[v] {
			assigned = append(assigned, v)
		} else {
			ro = append(ro, v)
		}
	}
	return
}

// assignCount: how often `v` is given a value in the current top-level function (declaration included)
func (t *translator) assignCount(v *types.Var) int {
	n := 0
	info := t.qz.info
	ast.Inspect(t.fn, func(nd ast.Node) bool {
		switch x := nd.(type) {
		case *ast.Ident:
			if info.Defs[x] == v {
				n++
			}
		case *ast.AssignStmt:
			if x.Tok != token.DEFINE {
				for _, l := range x.Lhs {
					if id, ok := l.(*ast.Ident); ok && info.Uses[id] == v {
						n++
					}
				}
			}
		case *ast.IncDecStmt:
			if id, ok := x.X.(*ast.Ident); ok && info.Uses[id] == v {
				n++
			}
		case *ast.UnaryExpr:
			if id, ok := x.X.(*ast.Ident); ok && x.Op == token.AND && info.Uses[id] == v {
				n += 2 // address taken: treat as reassigned
			}
		}
		return true
	})
	return n
}

// scan reports whether the statements (function literals excluded) contain a return, a call that may panic, a loop
// without condition
func (t *translator) scan(stmts []ast.Stmt) (hasReturn, mayPanic, unbounded bool) {
	for _, s := range stmts {
		ast.Inspect(s, func(n ast.Node) bool {
			switch x := n.(type) {
			case *ast.FuncLit:
				return false
			case *ast.ReturnStmt:
				hasReturn = true
			case *ast.ForStmt:
				if x.Cond == nil {
					unbounded = true
				}
			case *ast.CallExpr:
				if t.classify(x) == callExecute {
					mayPanic = true
				}
			}
			return true
		})
	}
	return
}

// ---------------------------------------------------------------------------------------------
// loops
// ---------------------------------------------------------------------------------------------

func (t *translator) forStmt(x *ast.ForStmt, label string, k kont) string {
	t.loopCount++
	name := t.unitName + ".loop" + strconv.Itoa(t.loopCount)
	hasReturn, mayPanic, _ := t.scan(x.Body.List)
	needFlow := hasReturn || mayPanic
	bounded := x.Init != nil || x.Cond != nil || x.Post != nil

	var loopVar *types.Var
	var lo, hi, cmp, cond string
	exclude := map[types.Object]bool{}
	if bounded {
		// `for i := lo; i <= hi; i++` / `i < hi`
		init, ok1 := x.Init.(*ast.AssignStmt)
		post, ok2 := x.Post.(*ast.IncDecStmt)
		c, ok3 := x.Cond.(*ast.BinaryExpr)
		if !ok1 || !ok2 || !ok3 || init.Tok != token.DEFINE || len(init.Lhs) != 1 || len(init.Rhs) != 1 || post.Tok != token.INC || (c.Op != token.LEQ && c.Op != token.LSS) {
			t.fail(x, "loop header is not `for i := a; i <= b; i++` (or `i < b`)")
		}
		iv, _ := init.Lhs[0].(*ast.Ident)
		pv, _ := post.X.(*ast.Ident)
		cv, _ := c.X.(*ast.Ident)
		if iv == nil || pv == nil || cv == nil {
			t.fail(x, "loop header: the loop variable is not a plain identifier")
		}
		loopVar, _ = t.qz.info.Defs[iv].(*types.Var)
		if loopVar == nil || t.qz.info.Uses[pv] != loopVar || t.qz.info.Uses[cv] != loopVar || !t.isIntType(iv) {
			t.fail(x, "loop header: init, condition and post statement do not use one int variable")
		}
		exclude[loopVar] = true
		lo = t.expr(init.Rhs[0])
		hi = t.expr(c.Y)
		if len(t.pre) > 0 {
			t.fail(x, "effect in the loop header")
		}
		ast.Inspect(c.Y, func(n ast.Node) bool {
			if cc, ok := n.(*ast.CallExpr); ok {
				t.fail(cc, "call in the loop bound")
			}
			return true
		})
		cmp = map[token.Token]string{token.LEQ: "≤", token.LSS: "<"}[c.Op]
		cond = "decide (" + iv.Name + " " + cmp + " " + hi + ")"
	}
	ro, asg := t.freeVars(x, exclude)
	if bounded {
		// the loop variable is only changed by the post statement; the bound is not assigned in the body
		n := 0
		ast.Inspect(x.Body, func(nd ast.Node) bool {
			switch y := nd.(type) {
			case *ast.AssignStmt:
				for _, l := range y.Lhs {
					if id, ok := l.(*ast.Ident); ok && t.qz.info.Uses[id] == loopVar {
						n++
					}
				}
			case *ast.IncDecStmt:
				if id, ok := y.X.(*ast.Ident); ok && t.qz.info.Uses[id] == loopVar {
					n++
				}
			}
			return true
		})
		if n > 0 {
			t.fail(x, "the loop variable is assigned in the loop body")
		}
		_, boundAsg := t.freeVars(x.Cond, exclude)
		for _, v := range asg {
			for _, id := range identsOf(x.Cond) {
				if t.qz.info.Uses[id] == v {
					t.fail(x, "the loop bound uses %s, which the body assigns", v.Name())
				}
			}
		}
		_ = boundAsg
	}

	roDecl, roArgs := "", ""
	for _, v := range ro {
		roDecl += " (" + v.Name() + " : " + t.leanType(x, v.Type()) + ")"
		roArgs += " " + v.Name()
	}
	var sig, pats, state []string
	sig = append(sig, "Nat")
	if bounded {
		sig = append(sig, "Int")
	}
	sig = append(sig, "St W SJ")
	resParts := []string{"St W SJ"}
	state = append(state, "σ")
	for _, v := range asg {
		lt := t.leanType(x, v.Type())
		sig = append(sig, parenType(lt))
		resParts = append(resParts, parenType(lt))
		state = append(state, v.Name())
	}
	if needFlow {
		resParts = append(resParts, "Flow")
	}
	resType := tupleType(resParts)
	partial := !bounded
	wrap := func(s string) string {
		if partial {
			return "some " + parenIf(s)
		}
		return s
	}
	exit := func(flow string) string {
		parts := append([]string{}, state...)
		if needFlow {
			parts = append(parts, flow)
		}
		return wrap(tuple(parts))
	}
	stateArgs := strings.Join(state, " ")
	var again string
	if bounded {
		pats = []string{loopVar.Name()}
		again = name + " X env" + roArgs + " fuel (" + loopVar.Name() + " + 1) " + stateArgs
	} else {
		again = name + " X env" + roArgs + " fuel " + stateArgs
	}
	pats = append(pats, state...)
	leave := func() string { return exit("Flow.next") }
	bk := kont{
		next: func() string { return again },
		brk:  map[string]func() string{"": leave},
		ret: func(n ast.Node, vals []string) string {
			if len(vals) > 0 {
				t.fail(n, "return with values inside a loop")
			}
			return exit("Flow.ret")
		},
		pnc: func(ast.Node) string { return exit("Flow.panic") },
	}
	if label != "" {
		bk.brk[label] = leave
	}
	body := t.block(x.Body.List, bk)
	if partial {
		resType = "Option (" + resType + ")"
	}
	var def strings.Builder
	hdr := t.src(&ast.ForStmt{Init: x.Init, Cond: x.Cond, Post: x.Post, Body: &ast.BlockStmt{}})
	hdr = strings.TrimSuffix(strings.TrimSpace(hdr), "{ }")
	hdr = strings.TrimSuffix(strings.TrimSpace(hdr), "{}")
	if label != "" {
		hdr = label + ": " + hdr
	}
	fmt.Fprintf(&def, "/-- Go: %s the loop `%s` of %s.\n", t.qz.pos(x), strings.TrimSpace(hdr), t.unitName)
	if bounded {
		fmt.Fprintf(&def, "The first argument is the number of iterations left, `(%s).toNat` at the call (the loop variable is changed only by `%s++` and the\nbound is not assigned in the body: checked). ", fuelExpr(cmp, lo, hi), loopVar.Name())
	} else {
		fmt.Fprintf(&def, "The loop has no condition: the first argument is fuel, `none` = out of fuel. ")
	}
	fmt.Fprintf(&def, "Result: the state")
	if len(asg) > 0 {
		fmt.Fprintf(&def, ", the variables assigned in the body (%s)", strings.Join(state[1:], ", "))
	}
	if needFlow {
		fmt.Fprintf(&def, ", how the loop was left (`Flow.next`: condition false or `break`)")
	}
	fmt.Fprintf(&def, ". -/\n")
	fmt.Fprintf(&def, "def %s {W SJ : Type} (X : Ext W SJ) (env : Env)%s : %s → %s\n", name, roDecl, strings.Join(sig, " → "), resType)
	zero := append([]string{"0"}, pats...)
	succ := append([]string{"fuel + 1"}, pats...)
	if bounded {
		fmt.Fprintf(&def, "  | %s => %s\n", strings.Join(zero, ", "), leave())
		fmt.Fprintf(&def, "  | %s =>\n", strings.Join(succ, ", "))
		fmt.Fprintf(&def, "%s\n", ind(ind("if "+cond+" then\n"+ind(body)+"\nelse\n"+ind(leave()))))
	} else {
		fmt.Fprintf(&def, "  | %s => none\n", strings.Join(zero, ", "))
		fmt.Fprintf(&def, "  | %s =>\n", strings.Join(succ, ", "))
		fmt.Fprintf(&def, "%s\n", ind(ind(body)))
	}
	t.defs = append(t.defs, def.String())
	t.report = append(t.report, jsonFn{Go: t.unitName + " loop", Lean: name, Pos: t.qz.pos(x), Kind: "loop", OK: true})

	// the call
	r := t.fresh()
	var call string
	if bounded {
		call = name + " X env" + roArgs + " (" + fuelExpr(cmp, lo, hi) + ").toNat " + parenIf(lo) + " " + stateArgs
	} else {
		call = name + " X env" + roArgs + " fuel " + stateArgs
	}
	n := len(resParts)
	after := "let σ := " + proj(r, 0, n) + "\n"
	for i, v := range asg {
		after += "let " + v.Name() + " := " + proj(r, i+1, n) + "\n"
	}
	if needFlow {
		var arms []string
		if hasReturn {
			arms = append(arms, "| .ret =>\n"+ind(k.ret(x, nil)))
		}
		if mayPanic {
			arms = append(arms, "| .panic =>\n"+ind(k.pnc(x)))
		}
		last := "| .next =>\n"
		if !(hasReturn && mayPanic) {
			last = "| _ =>\n"
		}
		arms = append(arms, last+ind(k.next()))
		after += "(match " + proj(r, n-1, n) + " with\n" + strings.Join(arms, "\n") + ")"
	} else {
		after += k.next()
	}
	if partial {
		return "(match " + call + " with\n| none => none\n| some " + r + " =>\n" + ind(after) + ")"
	}
	return "let " + r + " := " + call + "\n" + after
}

func fuelExpr(cmp, lo, hi string) string {
	if cmp == "≤" {
		return hi + " + 1 - " + lo
	}
	return hi + " - " + lo
}

func parenIf(s string) string {
	if strings.ContainsAny(s, " ") && !(strings.HasPrefix(s, "(") && strings.HasSuffix(s, ")")) {
		return "(" + s + ")"
	}
	return s
}

func identsOf(n ast.Node) []*ast.Ident {
	var ids []*ast.Ident
	ast.Inspect(n, func(x ast.Node) bool {
		if id, ok := x.(*ast.Ident); ok {
			ids = append(ids, id)
		}
		return true
	})
	return ids
}
