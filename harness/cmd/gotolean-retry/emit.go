package main

import (
	"fmt"
	"go/ast"
	"go/types"
	"path/filepath"
	"sort"
	"strings"
)

type unitSpec struct {
	name, doc, kind string
	params          []param
	results         []string
	stmts           []ast.Stmt
	node            ast.Node
}

// uniqueNames: inside one unit a `let` re-binding stands for an assignment, so two different variables must not share
// a name
func (t *translator) uniqueNames(node ast.Node, stmts []ast.Stmt, params []param) {
	seen := map[string]types.Object{}
	for _, p := range params {
		seen[p.name] = nil
	}
	for _, s := range stmts {
		ast.Inspect(s, func(n ast.Node) bool {
			if _, ok := n.(*ast.FuncLit); ok {
				return false
			}
			if id, ok := n.(*ast.Ident); ok && id.Name != "_" {
				if v, ok := t.qz.info.Defs[id].(*types.Var); ok {
					if o, dup := seen[id.Name]; dup && o != v {
						t.fail(id, "two variables named %s in one function body", id.Name)
					}
					seen[id.Name] = v
				}
			}
			return true
		})
	}
	for _, reserved := range []string{"σ", "X", "env", "fuel", "flow"} {
		if _, clash := seen[reserved]; clash {
			t.fail(node, "a variable is named %s", reserved)
		}
	}
}

func (t *translator) emitUnit(u unitSpec) {
	saveName, saveFlow := t.unitName, t.flowVar
	t.unitName, t.flowVar = u.name, ""
	defer func() { t.unitName, t.flowVar = saveName, saveFlow }()

	var defers []*ast.DeferStmt
	stmts := u.stmts
	for len(stmts) > 0 {
		d, ok := stmts[0].(*ast.DeferStmt)
		if !ok {
			break
		}
		defers = append(defers, d)
		stmts = stmts[1:]
	}
	t.uniqueNames(u.node, stmts, u.params)
	_, mayPanic, partial := t.scan(stmts)
	wrap := func(s string) string {
		if partial {
			return "some " + parenIf(s)
		}
		return s
	}
	hdr := "{W SJ : Type} (X : Ext W SJ) (env : Env)"
	args := " X env"
	if partial {
		hdr += " (fuel : Nat)"
		args += " fuel"
	}
	hdr += " (σ : St W SJ)"
	args += " σ"
	for _, p := range u.params {
		hdr += " (" + p.name + " : " + p.typ + ")"
		args += " " + p.name
	}
	opt := func(s string) string {
		if partial {
			return "Option (" + s + ")"
		}
		return s
	}
	fuelDoc := ""
	if partial {
		fuelDoc = "\nContains a loop without condition: `fuel` bounds its iterations, `none` = out of fuel."
	}

	if len(defers) == 0 {
		resType := tupleType(append([]string{"St W SJ"}, mapStr(u.results, parenType)...))
		k := kont{
			next: func() string {
				if len(u.results) > 0 {
					t.fail(u.node, "control reaches the end of a function with results")
				}
				return wrap("σ")
			},
			brk: map[string]func() string{},
			ret: func(n ast.Node, vals []string) string {
				if len(vals) != len(u.results) {
					t.fail(n, "return with %d values, %d expected", len(vals), len(u.results))
				}
				return wrap(tuple(append([]string{"σ"}, vals...)))
			},
			pnc: func(n ast.Node) string {
				t.fail(n, "a panic of this call would leave %s: there is no deferred recover()", u.name)
				return ""
			},
		}
		body := t.block(stmts, k)
		t.defs = append(t.defs, fmt.Sprintf("/-- %s%s -/\ndef %s %s : %s :=\n%s\n", u.doc, fuelDoc, u.name, hdr, opt(resType), ind(body)))
		t.report = append(t.report, jsonFn{Go: u.name, Lean: u.name, Pos: t.qz.pos(u.node), Kind: u.kind, OK: true})
		return
	}

	// leading `defer`s: the rest of the body becomes `<name>.body`, which also says how it was left; the wrapper runs
	// the deferred calls (last one first) on every exit
	if len(u.results) > 0 {
		t.fail(u.node, "defer in a function with results")
	}
	recovers := false
	for _, d := range defers {
		ast.Inspect(d, func(n ast.Node) bool {
			if c, ok := n.(*ast.CallExpr); ok && t.classify(c) == callRecover {
				recovers = true
			}
			return true
		})
	}
	if mayPanic && !recovers {
		t.fail(u.node, "a panic of Execute would leave %s: no deferred function calls recover()", u.name)
	}
	k := kont{
		next: func() string { return wrap("(σ, Flow.next)") },
		brk:  map[string]func() string{},
		ret: func(n ast.Node, vals []string) string {
			if len(vals) != 0 {
				t.fail(n, "return with values")
			}
			return wrap("(σ, Flow.ret)")
		},
		pnc: func(ast.Node) string { return wrap("(σ, Flow.panic)") },
	}
	body := t.block(stmts, k)
	t.defs = append(t.defs, fmt.Sprintf("/-- %s — the statements after the leading `defer`%s; the second component says how they were left\n(`Flow.panic`: a call panicked and the rest was skipped).%s -/\ndef %s.body %s : %s :=\n%s\n",
		u.doc, plural(len(defers)), fuelDoc, u.name, hdr, opt("St W SJ × Flow"), ind(body)))
	t.report = append(t.report, jsonFn{Go: u.name + " (body)", Lean: u.name + ".body", Pos: t.qz.pos(u.node), Kind: u.kind, OK: true})

	var run func(i int) string
	run = func(i int) string {
		if i < 0 {
			return wrap("σ")
		}
		d := defers[i]
		rest := func() string { return run(i - 1) }
		head := "-- " + t.qz.pos(d) + " `" + firstLine(t.src(d)) + "`\n"
		if lit, ok := d.Call.Fun.(*ast.FuncLit); ok {
			if len(d.Call.Args) != 0 || lit.Type.Params.NumFields() != 0 || lit.Type.Results.NumFields() != 0 {
				t.fail(d, "deferred function literal with parameters or results")
			}
			if _, asg := t.freeVars(lit, nil); len(asg) > 0 {
				t.fail(d, "the deferred function assigns %s", asg[0].Name())
			}
			t.uniqueNames(lit, lit.Body.List, u.params)
			if r, p, ub := t.scan(lit.Body.List); p || ub {
				_ = r
				t.fail(d, "the deferred function calls Execute or loops")
			}
			t.flowVar = "flow"
			s := t.block(lit.Body.List, kont{next: rest, brk: map[string]func() string{}, ret: func(ast.Node, []string) string { return rest() },
				pnc: func(n ast.Node) string { t.fail(n, "panicking call in a deferred function"); return "" }})
			t.flowVar = ""
			return head + s
		}
		return head + t.callStmt(d.Call, kont{next: rest})
	}
	rest := "let σ := r0.1\nlet flow : Flow := r0.2\n" + run(len(defers)-1)
	var w string
	if partial {
		w = "(match " + u.name + ".body" + args + " with\n| none => none\n| some r0 =>\n" + ind(rest) + ")"
	} else {
		w = "let r0 := " + u.name + ".body" + args + "\n" + rest
	}
	note := "A panic does not leave the function: a deferred function calls `recover()`."
	if !recovers {
		note = "No call in the body can panic."
	}
	t.defs = append(t.defs, fmt.Sprintf("/-- %s: the body, then the deferred call%s (on every exit, last one first). %s%s -/\ndef %s %s : %s :=\n%s\n",
		u.doc, plural(len(defers)), note, fuelDoc, u.name, hdr, opt("St W SJ"), ind(w)))
	t.report = append(t.report, jsonFn{Go: u.name, Lean: u.name, Pos: t.qz.pos(u.node), Kind: u.kind, OK: true})
}

func plural(n int) string {
	if n == 1 {
		return ""
	}
	return "s"
}

func firstLine(s string) string {
	if len(s) > 60 {
		return s[:57] + "..."
	}
	return s
}

func mapStr(xs []string, f func(string) string) []string {
	var out []string
	for _, x := range xs {
		out = append(out, f(x))
	}
	return out
}

// ---------------------------------------------------------------------------------------------
// top level
// ---------------------------------------------------------------------------------------------

var functions = []string{"executeWithRetries", "executeAndReschedule", "startWorkers"}

func (t *translator) translateFunc(name string) {
	fd := t.qz.funcDecl("StdScheduler", name)
	if fd == nil || fd.Body == nil {
		t.miss("function " + name + ": not found")
		t.report = append(t.report, jsonFn{Go: name, Lean: name, Kind: "method", Why: "not found"})
		return
	}
	nDefs, nClos, nRep, nStructs := len(t.defs), len(t.closures), len(t.report), len(t.structs)
	t.fn, t.recv = fd, nil
	t.rcount, t.loopCount, t.litCount = 0, 0, 0
	t.pre, t.timerVars = nil, map[types.Object]bool{}
	if len(fd.Recv.List[0].Names) == 1 {
		t.recv = t.qz.info.Defs[fd.Recv.List[0].Names[0]]
	}
	sig := t.src(&ast.FuncDecl{Recv: fd.Recv, Name: fd.Name, Type: fd.Type})
	doc := "Go: " + t.qz.pos(fd) + " `" + sig + "`"
	func() {
		defer func() {
			if r := recover(); r != nil {
				u, ok := r.(unsupported)
				if !ok {
					panic(r)
				}
				t.defs, t.closures, t.report = t.defs[:nDefs], t.closures[:nClos], t.report[:nRep]
				_ = nStructs
				t.defs = append(t.defs, "-- "+doc+"\n-- NOT TRANSLATED: "+u.msg+"\n")
				t.miss("function " + name + ": " + u.msg)
				t.report = append(t.report, jsonFn{Go: name, Lean: name, Pos: t.qz.pos(fd), Kind: "method", Why: u.msg})
			}
		}()
		var ps []param
		for _, f := range fd.Type.Params.List {
			for _, n := range f.Names {
				v := t.qz.info.Defs[n].(*types.Var)
				if isHandle(v.Type()) {
					if c := t.assignCount(v); c != 1 {
						t.fail(n, "the parameter %s (a %s) is reassigned", n.Name, v.Type())
					}
					continue
				}
				ps = append(ps, param{n.Name, t.leanType(n, v.Type())})
			}
		}
		var res []string
		if fd.Type.Results != nil {
			for _, f := range fd.Type.Results.List {
				if len(f.Names) > 0 {
					t.fail(f, "named results")
				}
				res = append(res, t.leanType(f, t.qz.info.TypeOf(f.Type)))
			}
		}
		t.emitUnit(unitSpec{name: name, doc: doc, kind: "method", params: ps, results: res, stmts: fd.Body.List, node: fd})
		t.translated[name] = true
	}()
}

func (t *translator) run() string {
	t.translated = map[string]bool{}
	seenFile := map[string]bool{}
	for _, f := range t.qz.files {
		name := "quartz/" + filepath.Base(t.fset.Position(f.Pos()).Filename)
		if !seenFile[name] {
			seenFile[name] = true
		}
	}
	t.sourceFiles = []string{"quartz/job_detail.go", "quartz/job_key.go", "quartz/scheduler.go"}
	t.requireStruct("SchedulerConfig")
	t.requireStruct("JobDetail")
	for _, name := range functions {
		t.translateFunc(name)
	}
	t.analyze()
	sort.SliceStable(t.structs, func(i, j int) bool { return t.structRank(t.structs[i].name) < t.structRank(t.structs[j].name) })

	var b strings.Builder
	b.WriteString(header)
	b.WriteString(prelude1)
	b.WriteString("/-! ## Structures (fields default to Go's zero values) -/\n\n")
	for _, s := range t.structs {
		fmt.Fprintf(&b, "/-- Go: %s `type %s struct` -/\nstructure %s where\n", s.pos, s.name, s.name)
		for _, f := range s.fields {
			if f.skipped != "" {
				fmt.Fprintf(&b, "  -- field `%s %s` is not translated (%s)\n", f.name, f.goType, f.skipped)
			} else {
				fmt.Fprintf(&b, "  %s : %s := %s\n", f.name, f.lean, f.zero)
			}
		}
		b.WriteString("deriving Repr, DecidableEq, Inhabited\n\n")
	}
	b.WriteString("/-! ## Goroutine bodies (`go func() { … }()`), one constructor per function literal with its captured variables -/\n\n")
	b.WriteString("inductive Closure (SJ : Type) where\n")
	if len(t.closures) == 0 {
		b.WriteString("  | unused\n")
	}
	for _, c := range t.closures {
		fmt.Fprintf(&b, "  /-- Go: %s -/\n  | %s", c.pos, c.ctor)
		for _, p := range c.fields {
			fmt.Fprintf(&b, " (%s : %s)", p.name, p.typ)
		}
		b.WriteString("\n")
	}
	b.WriteString("deriving Repr, DecidableEq\n\n")
	b.WriteString(prelude2)
	b.WriteString("/-! ## Functions -/\n\n")
	for _, d := range t.defs {
		b.WriteString(d)
		b.WriteString("\n")
	}
	b.WriteString("/-! ## Facts read from the source next to the translated functions -/\n\n")
	for _, f := range t.facts {
		b.WriteString(f)
		b.WriteString("\n")
	}
	b.WriteString("\n/-! ## Idiom checks and untranslated parts -/\n\n")
	for _, n := range t.idiomOrder {
		fmt.Fprintf(&b, "-- idiom %s: %s\n", n, t.idioms[n])
	}
	b.WriteString("\n/-- everything that could not be translated, or an idiom check that failed (must be `[]`) -/\ndef missing : List String := [")
	for i, m := range t.missing {
		if i > 0 {
			b.WriteString(",")
		}
		b.WriteString("\n  " + leanString(m))
	}
	b.WriteString("]\n\nend Generated.TransRetry\n")
	return b.String()
}

// structRank: a struct after the structs its fields mention
func (t *translator) structRank(name string) int {
	rank := 0
	for _, s := range t.structs {
		if s.name != name {
			continue
		}
		for _, f := range s.fields {
			for _, o := range t.structs {
				if o.name != name && (f.lean == o.name || f.lean == "Option "+o.name) {
					if r := t.structRank(o.name) + 1; r > rank {
						rank = r
					}
				}
			}
		}
	}
	return rank
}

const header = `/-!
# GENERATED by harness/cmd/gotolean-retry — do not edit

Lean 4 translation of the job-execution control flow of the go-quartz scheduler, regenerated from the working tree
(` + "`quartz/scheduler.go`" + `: executeWithRetries, executeAndReschedule, startWorkers and the goroutines they start; the structs
from ` + "`quartz/job_detail.go`, `quartz/job_key.go`" + `).

## Conventions
* Go ` + "`int`/`time.Duration`" + ` are ` + "`Int`" + ` (no wrap-around: the only arithmetic is the ` + "`i++`" + ` of a loop whose variable is bounded by the
  loop condition); ` + "`error`" + ` is ` + "`Option Err`" + ` (nil = none); a pointer to a struct is an ` + "`Option`" + ` (nil = none), selecting through nil
  yields the default value where Go panics (the theorems are stated for non-nil job details / options).
* Every function takes the externals ` + "`X : Ext W SJ`" + `, ` + "`env`" + ` (= ` + "`sched.opts`" + `) and the state ` + "`σ : St W SJ`" + ` (abstract world + the events recorded
  so far) and returns the new state (paired with its Go results).  Statements become ` + "`let`" + `s in continuation-passing style: a branch
  that leaves (` + "`return`, `break`" + `, a panic) ends with the result of the enclosing definition.
* A ` + "`for i := a; i <= b; i++`" + ` loop is ` + "`f.loopN`" + `, structurally recursive on the number of iterations left; the variables its body assigns
  are arguments and results; a ` + "`Flow`" + ` result says how it was left.  ` + "`break`/`break label`" + ` leave the loop of that label with
  ` + "`Flow.next`" + `.  A ` + "`for { … }`" + ` without condition takes ` + "`fuel`" + ` and returns ` + "`Option`" + ` (none = out of fuel).
* ` + "`switch { case c: … }`" + ` is an if-chain in source order (default must be last).
* ` + "`defer`" + ` is translated only at the head of a function: the remaining statements are ` + "`f.body`" + ` (result: state and ` + "`Flow`" + `), ` + "`f`" + ` runs the
  deferred calls afterwards on every exit.  A panic (only ` + "`Job.Execute`" + ` can panic here) is an early exit of ` + "`f.body`" + ` with
  ` + "`Flow.panic`" + `; ` + "`recover()`" + ` in the deferred function literal is ` + "`recoverOf flow`" + ` (non-nil iff panicking) and ends the panic.  A function
  whose body can panic and that has no deferred ` + "`recover()`" + ` is NOT translated.
* ` + "`go func() { … }()`" + ` is the event ` + "`Event.go (Closure.<fn>_litN captured…)`" + `; the literal's body is translated separately as ` + "`<fn>.litN`" + `.

## Modelled, not translated (explicit state-passing externals, ` + "`structure Ext W SJ`" + `)
* ` + "`jobDetail.job.Execute(ctx)`" + ` (user code): ` + "`X.Execute : W → Ref → W × CallResult (Option Err)`" + ` — returns nil, returns an error, or panics.
* ` + "`select { … }`" + `: ` + "`X.select : W → List Chan → W × Nat`" + ` says which case wins (index in source order; an index past the end means the last
  case).  A receive that binds a variable takes its value from ` + "`X.recv`" + `; a send that wins is the event ` + "`Event.send`" + `.
* ` + "`ctx.Err()`" + `: ` + "`X.ctxErr : W → W × Option Err`" + `.  ` + "`ctx`" + ` itself, channels and timers are not values of the translation: ` + "`ctx`" + ` must be the
  (never reassigned) context parameter of the enclosing function and is passed on unchanged (checked).
* ` + "`sched.fetchAndReschedule()`" + `: ` + "`X.fetchAndReschedule`" + ` (translated by gotolean-sched, an external here).
* ` + "`ScheduledJob`" + ` values are an abstract type ` + "`SJ`" + `, observed only through ` + "`X.JobDetail`" + ` (a pure getter).
* RECORDED as events in program order: ` + "`sched.logger.X(msg, …)`" + ` (key/value arguments dropped; CHECKED: they read variables, fields,
  constants, ` + "`(*JobKey).String()`" + ` (itself checked to be a Sprintf of the key's string fields) and the ScheduledJob getter only — no user code),
  ` + "`time.NewTimer(d)`, `timer.Stop()`, `sched.wg.Add(n)`, `sched.wg.Done()`" + `, every external call above with its answer.
* Trusted: the logger does not panic; a job does not change its own ` + "`JobDetail`" + ` options while it runs (the loop bound is read once per
  iteration from the same value); ` + "`MaxRetries < 2^63 - 1`" + ` (no overflow of ` + "`i++`" + `).
-/
set_option linter.unusedVariables false
set_option autoImplicit false

namespace Generated.TransRetry

`

const prelude1 = `/-! ## Fixed prelude (not derived from the source) -/

/-- a non-nil Go ` + "`error`" + `; its content is never inspected in this area -/
structure Err where
  code : Nat := 0
deriving Repr, DecidableEq, Inhabited

/-- the value a panic carries (what ` + "`recover()`" + ` returns) -/
structure PanicVal where
  code : Nat := 0
deriving Repr, DecidableEq, Inhabited

/-- identity of an interface value that is only passed on (Job, Trigger) -/
abbrev Ref := Nat

/-- Go ` + "`*p` / `p.f`" + ` through a pointer.  Go panics on nil; here the result is the default value. -/
def deref {α : Type} [Inhabited α] : Option α → α
  | some a => a
  | none => default

/-- what a call of user code does: it returns, or it panics -/
inductive CallResult (α : Type) where
  | returned (a : α)
  | panicked
deriving Repr, DecidableEq

/-- how control leaves a sequence of statements: off its end, by ` + "`return`" + `, or unwinding a panic -/
inductive Flow where
  | next
  | ret
  | panic
deriving Repr, DecidableEq

/-- ` + "`recover()`" + ` in a deferred function: non-nil iff the function is panicking -/
def recoverOf : Flow → Option PanicVal
  | .panic => some {}
  | _ => none

/-- the channel operation of a ` + "`select`" + ` case; the channel is named by its source text -/
inductive Chan where
  | recv (ch : String)
  | send (ch : String)
deriving Repr, DecidableEq

`

const prelude2 = `/-! ## Fixed prelude, second part: recorded effects, the state passed around, the externals -/

/-- What the translated functions do to the outside world, in program order. -/
inductive Event (SJ : Type) where
  /-- ` + "`sched.logger.<level>(msg, …)`" + ` -/
  | log (level : String) (msg : String)
  /-- ` + "`job.Execute(ctx)`" + ` and what it did -/
  | execute (job : Ref) (r : CallResult (Option Err))
  /-- ` + "`time.NewTimer(d)`" + ` -/
  | newTimer (d : Int)
  /-- ` + "`timer.Stop()`" + ` -/
  | timerStop
  /-- a ` + "`select`" + ` over these cases, and the index of the case that won -/
  | select (cases : List Chan) (chosen : Nat)
  /-- ` + "`ctx.Err()`" + ` and its answer -/
  | ctxErr (e : Option Err)
  /-- the send case of a select won: the value went to a receiver -/
  | send (ch : String) (v : SJ)
  /-- a receive case won, with the value received -/
  | recv (ch : String) (v : SJ)
  /-- ` + "`sched.wg.Add(n)`" + ` -/
  | wgAdd (n : Int)
  /-- ` + "`sched.wg.Done()`" + ` -/
  | wgDone
  /-- ` + "`go func() { … }()`" + ` -/
  | go (f : Closure SJ)
  /-- ` + "`sched.fetchAndReschedule()`" + ` returned, with its ` + "`valid`" + ` flag -/
  | fetch (valid : Bool)
deriving Repr, DecidableEq

/-- the externals (see the file header) -/
structure Ext (W SJ : Type) where
  Execute : W → Ref → W × CallResult (Option Err)
  select : W → List Chan → W × Nat
  ctxErr : W → W × Option Err
  recv : W → String → W × SJ
  fetchAndReschedule : W → W × (SJ × Bool × Option Err)
  JobDetail : SJ → Option JobDetail

/-- what the functions read from the scheduler: ` + "`sched.opts`" + ` -/
structure Env where
  opts : SchedulerConfig
deriving Repr, DecidableEq

/-- the abstract world and the events recorded so far -/
structure St (W SJ : Type) where
  world : W
  out : List (Event SJ) := []

def St.emit {W SJ : Type} (σ : St W SJ) (e : Event SJ) : St W SJ := { σ with out := σ.out ++ [e] }

def St.execute {W SJ : Type} (σ : St W SJ) (X : Ext W SJ) (job : Ref) : St W SJ × CallResult (Option Err) :=
  ({ world := (X.Execute σ.world job).1, out := σ.out ++ [Event.execute job (X.Execute σ.world job).2] }, (X.Execute σ.world job).2)

def St.select {W SJ : Type} (σ : St W SJ) (X : Ext W SJ) (cases : List Chan) : St W SJ × Nat :=
  ({ world := (X.select σ.world cases).1, out := σ.out ++ [Event.select cases (X.select σ.world cases).2] }, (X.select σ.world cases).2)

def St.ctxErr {W SJ : Type} (σ : St W SJ) (X : Ext W SJ) : St W SJ × Option Err :=
  ({ world := (X.ctxErr σ.world).1, out := σ.out ++ [Event.ctxErr (X.ctxErr σ.world).2] }, (X.ctxErr σ.world).2)

def St.recv {W SJ : Type} (σ : St W SJ) (X : Ext W SJ) (ch : String) : St W SJ × SJ :=
  ({ world := (X.recv σ.world ch).1, out := σ.out ++ [Event.recv ch (X.recv σ.world ch).2] }, (X.recv σ.world ch).2)

def St.fetch {W SJ : Type} (σ : St W SJ) (X : Ext W SJ) : St W SJ × (SJ × Bool × Option Err) :=
  ({ world := (X.fetchAndReschedule σ.world).1, out := σ.out ++ [Event.fetch (X.fetchAndReschedule σ.world).2.2.1] }, (X.fetchAndReschedule σ.world).2)

`
