package main

import (
	"fmt"
	"go/ast"
	"go/constant"
	"go/token"
	"go/types"
	"path/filepath"
	"sort"
	"strings"
)

type unsupported struct{ msg string }

func (u unsupported) Error() string { return u.msg }

func fail(format string, a ...any) { panic(unsupported{fmt.Sprintf(format, a...)}) }

// the functions to translate (hard-coded list, see the package comment), callees first
var wanted = []string{
	"newCronField", "newCronFieldN",
	"translateLiteral", "normalize", "translateLiterals", "extractRangeValues", "extractStepValues",
	"parseRangeField", "parseStepField", "parseListField", "parseField",
	"parseDayOfMonthField", "parseDayOfWeekField",
	"buildCronField", "parseCronExpression", "trimCronExpression", "ValidateCronExpression",
	"NewCronTriggerWithLoc", "NewCronTrigger",
}

// functions translated by the sibling gotolean-cron and imported from Generated.TransCron
var imported = []struct{ recv, name string }{
	{"", "inScope"},
	{"", "fillRangeValues"},
	{"", "fillStepValues"},
	{"cronField", "add"},
}

type fnInfo struct {
	decl     *ast.FuncDecl
	obj      *types.Func
	goName   string
	lean     string
	pos      string
	sig      string
	recv     *types.Var
	mut      bool // assigns fields of its receiver: returns the updated receiver
	fuel     bool // takes fuel, returns Option
	usesX    bool // takes (X : StrExt)
	imported bool
	text     string
	err      error
}

type translator struct {
	fset        *token.FileSet
	csm, qz     *pkgInfo
	repo        string
	fns         map[types.Object]*fnInfo
	order       []*fnInfo
	missing     []string
	idioms      map[string]string
	sourceFiles []string
	extOps      map[string]bool
	errVals     map[string]bool
	pkgVars     map[*types.Var]string // package-level data used by the listed functions → Lean def text
	pkgVarOrder []*types.Var
	errCtors    map[string]string // error constructor → sentinel its result wraps
	errCtorPos  map[string]string
	structText  string
}

func newTranslator(fset *token.FileSet, csm, qz *pkgInfo, repo string) *translator {
	return &translator{fset: fset, csm: csm, qz: qz, repo: repo, fns: map[types.Object]*fnInfo{}, idioms: map[string]string{},
		extOps: map[string]bool{}, errVals: map[string]bool{}, pkgVars: map[*types.Var]string{}, errCtors: map[string]string{}, errCtorPos: map[string]string{}}
}

func (t *translator) miss(s string) {
	for _, m := range t.missing {
		if m == s {
			return
		}
	}
	t.missing = append(t.missing, s)
}

func (t *translator) posOf(n ast.Node) string {
	p := t.fset.Position(n.Pos())
	rel, err := filepath.Rel(t.repo, p.Filename)
	if err != nil {
		rel = p.Filename
	}
	return fmt.Sprintf("%s:%d", filepath.ToSlash(rel), p.Line)
}

func (t *translator) report(name string, why []string, okText string) {
	if len(why) == 0 {
		t.idioms[name] = "ok: " + okText
		return
	}
	t.idioms[name] = "FAILED: " + strings.Join(why, "; ")
	t.miss(name + ": " + strings.Join(why, "; "))
}

func unparen(e ast.Expr) ast.Expr {
	for {
		p, ok := e.(*ast.ParenExpr)
		if !ok {
			return e
		}
		e = p.X
	}
}

func namedOf(t types.Type) *types.Named {
	if p, ok := t.(*types.Pointer); ok {
		t = p.Elem()
	}
	n, _ := t.(*types.Named)
	return n
}

func isNamed(t types.Type, pkgPath, name string) bool {
	n := namedOf(t)
	return n != nil && n.Obj().Pkg() != nil && n.Obj().Pkg().Path() == pkgPath && n.Obj().Name() == name
}

func isLocation(t types.Type) bool { return isNamed(t, "time", "Location") }
func isRegexp(t types.Type) bool   { return isNamed(t, "regexp", "Regexp") }

func isErrorType(t types.Type) bool {
	n, ok := t.(*types.Named)
	return ok && n.Obj().Pkg() == nil && n.Obj().Name() == "error"
}

func isString(t types.Type) bool {
	b, ok := t.Underlying().(*types.Basic)
	return ok && b.Info()&types.IsString != 0
}

func isInteger(t types.Type) bool {
	b, ok := t.Underlying().(*types.Basic)
	return ok && b.Info()&types.IsInteger != 0
}

func isBoolean(t types.Type) bool {
	b, ok := t.Underlying().(*types.Basic)
	return ok && b.Info()&types.IsBoolean != 0
}

func constInt(info *types.Info, e ast.Expr) (int64, bool) {
	if tv, ok := info.Types[e]; ok && tv.Value != nil && tv.Value.Kind() == constant.Int {
		return constant.Int64Val(tv.Value)
	}
	return 0, false
}

func constString(info *types.Info, e ast.Expr) (string, bool) {
	if tv, ok := info.Types[e]; ok && tv.Value != nil && tv.Value.Kind() == constant.String {
		return constant.StringVal(tv.Value), true
	}
	return "", false
}

func pkgOf(info *types.Info, e ast.Expr) (pkg, name string, ok bool) {
	s, isSel := unparen(e).(*ast.SelectorExpr)
	if !isSel {
		return "", "", false
	}
	id, isId := s.X.(*ast.Ident)
	if !isId {
		return "", "", false
	}
	pn, isPkg := info.Uses[id].(*types.PkgName)
	if !isPkg {
		return "", "", false
	}
	return pn.Imported().Path(), s.Sel.Name, true
}

func isPkgMember(info *types.Info, e ast.Expr, pkg, name string) bool {
	p, n, ok := pkgOf(info, e)
	return ok && p == pkg && n == name
}

var leanKeywords = map[string]bool{"end": true, "from": true, "at": true, "do": true, "then": true, "fun": true, "match": true, "open": true,
	"in": true, "have": true, "show": true, "prefix": true, "let": true, "def": true, "theorem": true, "with": true, "where": true, "by": true,
	"if": true, "else": true, "for": true, "return": true, "instance": true, "structure": true, "class": true, "namespace": true, "section": true,
	"variable": true, "universe": true, "import": true, "mut": true, "some": true, "none": true, "Type": true, "Prop": true, "Sort": true,
	"deriving": true, "example": true, "abbrev": true, "inductive": true, "macro": true, "syntax": true, "local": true, "private": true,
	"protected": true, "mutual": true, "unless": true, "break": true, "continue": true, "try": true, "catch": true, "finally": true, "using": true,
	"calc": true, "suffices": true, "obtain": true, "nomatch": true, "nofun": true, "infix": true, "infixl": true, "infixr": true, "notation": true,
	"postfix": true, "attribute": true, "export": true, "extends": true, "set_option": true, "opaque": true, "axiom": true, "unsafe": true, "partial": true}

// names the translation itself binds
var reservedNames = map[string]bool{"X": true, "fuel": true, "rest'": true, "default": true}

func leanIdent(s string) string {
	if leanKeywords[s] {
		return "«" + s + "»"
	}
	if reservedNames[s] {
		return s + "'"
	}
	return s
}

// ---------------------------------------------------------------- collection

func (t *translator) posFile(f *ast.File) string {
	p := t.fset.Position(f.Pos())
	rel, err := filepath.Rel(t.repo, p.Filename)
	if err != nil {
		rel = p.Filename
	}
	return filepath.ToSlash(rel)
}

func (t *translator) findFunc(recv, name string) *fnInfo {
	for _, file := range t.qz.files {
		for _, d := range file.Decls {
			fd, ok := d.(*ast.FuncDecl)
			if !ok || fd.Name.Name != name || fd.Body == nil {
				continue
			}
			obj, _ := t.qz.info.Defs[fd.Name].(*types.Func)
			if obj == nil {
				continue
			}
			sig := obj.Type().(*types.Signature)
			rn := ""
			if sig.Recv() != nil {
				if n := namedOf(sig.Recv().Type()); n != nil {
					rn = n.Obj().Name()
				}
			}
			if rn != recv {
				continue
			}
			fi := &fnInfo{decl: fd, obj: obj, goName: name, lean: leanIdent(name), pos: t.posOf(fd), sig: t.goSig(fd), recv: sig.Recv()}
			if rn != "" {
				fi.goName = rn + "." + name
				fi.lean = rn + "." + leanIdent(name)
			}
			return fi
		}
	}
	return nil
}

func (t *translator) collect() {
	seen := map[string]bool{}
	for _, f := range t.qz.files {
		name := t.posFile(f)
		base := filepath.Base(name)
		if !seen[name] && (base == "cron.go" || base == "util.go" || base == "error.go" || base == "csm.go") {
			seen[name] = true
			t.sourceFiles = append(t.sourceFiles, name)
		}
	}
	sort.Strings(t.sourceFiles)
	for _, w := range imported {
		fi := t.findFunc(w.recv, w.name)
		if fi == nil {
			t.miss("imported function " + w.name + " not found in package quartz")
			continue
		}
		fi.imported = true
		fi.lean = "TransCron." + fi.lean
		// the attributes gotolean-cron derives: a `for` loop ⇒ fuel; a store through the receiver ⇒ returns the receiver
		ast.Inspect(fi.decl.Body, func(n ast.Node) bool {
			switch x := n.(type) {
			case *ast.ForStmt:
				fi.fuel = true
			case *ast.AssignStmt:
				for _, l := range x.Lhs {
					if _, isId := unparen(l).(*ast.Ident); isId {
						continue
					}
					if id := rootIdent(l); id != nil && fi.recv != nil && t.qz.info.Uses[id] == fi.recv {
						fi.mut = true
					}
				}
			}
			return true
		})
		t.fns[fi.obj] = fi
	}
	for _, w := range wanted {
		fi := t.findFunc("", w)
		if fi == nil {
			t.miss("function " + w + " not found in package quartz")
			continue
		}
		t.fns[fi.obj] = fi
		t.order = append(t.order, fi)
	}
	t.flags()
}

// flags: which listed functions need fuel / the StrExt parameter (fixpoint over the call graph)
func (t *translator) flags() {
	info := t.qz.info
	calls := map[*fnInfo][]*fnInfo{}
	for _, f := range t.order {
		ast.Inspect(f.decl.Body, func(n ast.Node) bool {
			switch x := n.(type) {
			case *ast.ForStmt:
				f.fuel = true
			case *ast.CallExpr:
				if id, ok := x.Fun.(*ast.Ident); ok {
					if g := t.fns[info.Uses[id]]; g != nil {
						calls[f] = append(calls[f], g)
					}
				}
				if se, ok := x.Fun.(*ast.SelectorExpr); ok {
					if s := info.Selections[se]; s != nil && s.Kind() == types.MethodVal {
						if g := t.fns[s.Obj()]; g != nil {
							calls[f] = append(calls[f], g)
						}
						if isRegexp(s.Recv()) {
							f.usesX = true
						}
					}
					if p, _, ok := pkgOf(info, se); ok && (p == "strings" || p == "strconv" || p == "sort" || p == "regexp" || p == "unicode") {
						f.usesX = true
					}
				}
			}
			return true
		})
	}
	for changed := true; changed; {
		changed = false
		for _, f := range t.order {
			for _, g := range calls[f] {
				if g.fuel && !f.fuel {
					f.fuel, changed = true, true
				}
				if g.usesX && !f.usesX {
					f.usesX, changed = true, true
				}
			}
		}
	}
	// recursion is outside the supported subset
	var visit func(f *fnInfo, stack map[*fnInfo]bool) bool
	visit = func(f *fnInfo, stack map[*fnInfo]bool) bool {
		if stack[f] {
			return true
		}
		stack[f] = true
		defer delete(stack, f)
		for _, g := range calls[f] {
			if visit(g, stack) {
				return true
			}
		}
		return false
	}
	for _, f := range t.order {
		if visit(f, map[*fnInfo]bool{}) {
			f.err = unsupported{"recursive call chain through " + f.goName}
		}
	}
	// a callee must come before its callers in the emitted file
	idx := map[*fnInfo]int{}
	for i, f := range t.order {
		idx[f] = i
	}
	for _, f := range t.order {
		for _, g := range calls[f] {
			if !g.imported && idx[g] > idx[f] && f.err == nil {
				f.err = unsupported{fmt.Sprintf("calls %s, which the translator lists after it", g.goName)}
			}
		}
	}
}

func (t *translator) goSig(fd *ast.FuncDecl) string {
	src, err := readFile(t.fset.Position(fd.Pos()).Filename)
	if err != nil {
		return fd.Name.Name
	}
	a, b := t.fset.Position(fd.Pos()).Offset, t.fset.Position(fd.Body.Lbrace).Offset
	return strings.Join(strings.Fields(string(src[a:b])), " ")
}

func (t *translator) srcText(n ast.Node) string {
	src, err := readFile(t.fset.Position(n.Pos()).Filename)
	if err != nil {
		return ""
	}
	a, b := t.fset.Position(n.Pos()).Offset, t.fset.Position(n.End()).Offset
	return sanitizeComment(strings.Join(strings.Fields(string(src[a:b])), " "))
}

func sanitizeComment(s string) string {
	s = strings.ReplaceAll(s, "-/", "- /")
	return strings.ReplaceAll(s, "/-", "/ -")
}

func (t *translator) qzFunc(name string) *ast.FuncDecl {
	for _, file := range t.qz.files {
		for _, d := range file.Decls {
			if fd, ok := d.(*ast.FuncDecl); ok && fd.Recv == nil && fd.Name.Name == name && fd.Body != nil {
				return fd
			}
		}
	}
	return nil
}

type identNode struct{ p token.Pos }

func (i identNode) Pos() token.Pos { return i.p }
func (i identNode) End() token.Pos { return i.p }

// ---------------------------------------------------------------- idioms checked before translating

func (t *translator) checkIdioms() {
	info := t.qz.info

	// type boundary struct { lower int; upper int } → structure boundary
	{
		var why []string
		obj := t.qz.pkg.Scope().Lookup("boundary")
		if obj == nil {
			why = append(why, "type boundary not found")
		} else if st, ok := obj.Type().Underlying().(*types.Struct); !ok {
			why = append(why, "boundary is not a struct")
		} else {
			var b strings.Builder
			fmt.Fprintf(&b, "/-- Go: %s `type boundary struct` -/\nstructure boundary where\n", t.posOf(identNode{obj.Pos()}))
			for i := 0; i < st.NumFields(); i++ {
				f := st.Field(i)
				if !isInteger(f.Type()) {
					why = append(why, fmt.Sprintf("boundary.%s has type %s", f.Name(), f.Type()))
					continue
				}
				fmt.Fprintf(&b, "  %s : Int\n", leanIdent(f.Name()))
			}
			b.WriteString("deriving Repr, DecidableEq, Inhabited\n")
			t.structText = b.String()
		}
		t.report("idiom.boundary", why, "type boundary is a struct of ints")
	}

	// cronField { values []int; n int } and CronTrigger { expression string; fields []*cronField; lastDefined int; location *time.Location }
	// are the structures of Generated.Trans / Generated.TransCron
	{
		var why []string
		check := func(name string, want [][2]string) {
			obj := t.qz.pkg.Scope().Lookup(name)
			if obj == nil {
				why = append(why, "type "+name+" not found")
				return
			}
			st, ok := obj.Type().Underlying().(*types.Struct)
			if !ok || st.NumFields() != len(want) {
				why = append(why, fmt.Sprintf("type %s does not have the %d fields of its imported Lean structure", name, len(want)))
				return
			}
			for i, w := range want {
				if st.Field(i).Name() != w[0] || st.Field(i).Type().String() != w[1] {
					why = append(why, fmt.Sprintf("%s field %d is %s %s, want %s %s", name, i, st.Field(i).Name(), st.Field(i).Type(), w[0], w[1]))
				}
			}
		}
		check("cronField", [][2]string{{"values", "[]int"}, {"n", "int"}})
		check("CronTrigger", [][2]string{{"expression", "string"}, {"fields", "[]*" + quartzPath + ".cronField"}, {"lastDefined", "int"}, {"location", "*time.Location"}})
		t.report("idiom.importedStructs", why, "cronField{values []int; n int} = Trans.cronField; CronTrigger{expression string; fields []*cronField; lastDefined int; location *time.Location} = TransCron.CronTrigger (location = the parameter of its methods; expression kept as String)")
	}

	// error constructors: func newX(message string) error { return fmt.Errorf("%w…", ErrX, …) }  or  { return newY(…) }
	{
		var why []string
		var resolve func(name string, depth int) string
		resolve = func(name string, depth int) string {
			if depth > 4 {
				return ""
			}
			fd := t.qzFunc(name)
			if fd == nil || len(fd.Body.List) != 1 {
				return ""
			}
			rs, ok := fd.Body.List[0].(*ast.ReturnStmt)
			if !ok || len(rs.Results) != 1 {
				return ""
			}
			call, ok := rs.Results[0].(*ast.CallExpr)
			if !ok {
				return ""
			}
			if isPkgMember(info, call.Fun, "fmt", "Errorf") && len(call.Args) >= 2 {
				f, ok := constString(info, call.Args[0])
				if !ok || !strings.HasPrefix(f, "%w") || strings.Count(f, "%w") != 1 {
					return ""
				}
				if id, ok := call.Args[1].(*ast.Ident); ok {
					if v, ok := info.Uses[id].(*types.Var); ok && v.Parent() == t.qz.pkg.Scope() && isErrorType(v.Type()) {
						return id.Name
					}
				}
				return ""
			}
			if id, ok := call.Fun.(*ast.Ident); ok {
				if fn, ok := info.Uses[id].(*types.Func); ok && fn.Pkg() == t.qz.pkg {
					return resolve(id.Name, depth+1)
				}
			}
			return ""
		}
		for _, name := range []string{"newCronParseError", "newInvalidCronFieldError", "newIllegalArgumentError"} {
			fd := t.qzFunc(name)
			if fd == nil {
				continue // only an error when a listed function uses it (errExpr)
			}
			s := resolve(name, 0)
			if s == "" {
				why = append(why, name+" is not `return fmt.Errorf(\"%w…\", ErrX, …)` or a call of such a constructor")
				continue
			}
			t.errCtors[name] = s
			t.errCtorPos[name] = t.posOf(fd)
		}
		t.report("idiom.errorCtors", why, fmt.Sprintf("%d error constructors wrap a sentinel through fmt.Errorf(\"%%w…\")", len(t.errCtors)))
	}
}

// ---------------------------------------------------------------- package-level data

// pkgVar: the Lean name of a package-level variable used as data (glossary, macro table, regexp pattern); its definition
// is derived from the initialiser
func (t *translator) pkgVar(v *types.Var, at ast.Node) string {
	if _, ok := t.pkgVars[v]; ok {
		return leanIdent(v.Name())
	}
	info := t.qz.info
	var init ast.Expr
	var pos string
	for _, file := range t.qz.files {
		for _, d := range file.Decls {
			gd, ok := d.(*ast.GenDecl)
			if !ok || gd.Tok != token.VAR {
				continue
			}
			for _, sp := range gd.Specs {
				vs := sp.(*ast.ValueSpec)
				for i, id := range vs.Names {
					if info.Defs[id] == v && len(vs.Values) == len(vs.Names) {
						init = vs.Values[i]
						pos = t.posOf(id)
					}
				}
			}
		}
	}
	if init == nil {
		fail("package-level variable %s has no initialiser (used at %s)", v.Name(), t.posOf(at))
	}
	// is it assigned anywhere?
	for _, file := range t.qz.files {
		ast.Inspect(file, func(n ast.Node) bool {
			switch x := n.(type) {
			case *ast.AssignStmt:
				for _, l := range x.Lhs {
					if id := rootIdent(l); id != nil && info.Uses[id] == v {
						fail("package-level variable %s is assigned at %s", v.Name(), t.posOf(x))
					}
				}
			case *ast.UnaryExpr:
				if x.Op == token.AND {
					if id := rootIdent(x.X); id != nil && info.Uses[id] == v {
						fail("address of package-level variable %s taken at %s", v.Name(), t.posOf(x))
					}
				}
			}
			return true
		})
	}
	name := leanIdent(v.Name())
	var text string
	switch {
	case isRegexp(v.Type()):
		call, ok := init.(*ast.CallExpr)
		if !ok || !isPkgMember(info, call.Fun, "regexp", "MustCompile") || len(call.Args) != 1 {
			fail("regexp variable %s is not regexp.MustCompile(literal)", v.Name())
		}
		p, ok := constString(info, call.Args[0])
		if !ok {
			fail("regexp variable %s: pattern is not a constant", v.Name())
		}
		text = fmt.Sprintf("/-- Go: %s `var %s = regexp.MustCompile(…)`: the pattern (interpreted by `StrExt.reMatch` / `StrExt.reReplaceAll`) -/\ndef %s : Str := %s\n", pos, v.Name(), name, leanChars(p))
	default:
		cl, ok := init.(*ast.CompositeLit)
		if !ok {
			fail("package-level variable %s: initialiser %s", v.Name(), t.srcText(init))
		}
		switch ty := v.Type().Underlying().(type) {
		case *types.Slice:
			if !isString(ty.Elem()) {
				fail("package-level variable %s of type %s", v.Name(), v.Type())
			}
			var elts []string
			for _, e := range cl.Elts {
				s, ok := constString(info, e)
				if !ok {
					fail("package-level variable %s: element %s is not a constant string", v.Name(), t.srcText(e))
				}
				elts = append(elts, leanChars(s))
			}
			text = fmt.Sprintf("/-- Go: %s `var %s = []string{…}` -/\ndef %s : List Str := [\n  %s]\n", pos, v.Name(), name, strings.Join(elts, ",\n  "))
		case *types.Map:
			if !isString(ty.Key()) || !isString(ty.Elem()) {
				fail("package-level variable %s of type %s", v.Name(), v.Type())
			}
			var elts []string
			for _, e := range cl.Elts {
				kv, ok := e.(*ast.KeyValueExpr)
				if !ok {
					fail("package-level variable %s: element %s", v.Name(), t.srcText(e))
				}
				k, ok1 := constString(info, kv.Key)
				val, ok2 := constString(info, kv.Value)
				if !ok1 || !ok2 {
					fail("package-level variable %s: entry %s is not constant", v.Name(), t.srcText(e))
				}
				elts = append(elts, "("+leanChars(k)+",\n   "+leanChars(val)+")")
			}
			text = fmt.Sprintf("/-- Go: %s `var %s = map[string]string{…}` (entries in source order; Go rejects duplicate constant keys, so `mapLookup` = first match is the map lookup) -/\ndef %s : List (Str × Str) := [\n  %s]\n", pos, v.Name(), name, strings.Join(elts, ",\n  "))
		default:
			fail("package-level variable %s of type %s", v.Name(), v.Type())
		}
	}
	t.pkgVars[v] = text
	t.pkgVarOrder = append(t.pkgVarOrder, v)
	return name
}

// leanChars: a Go string constant as a `List Char` literal, with the Go literal as a comment
func leanChars(s string) string {
	if s == "" {
		return "([] : Str) /- \"\" -/"
	}
	var parts []string
	for _, r := range s {
		parts = append(parts, leanChar(r))
	}
	c := sanitizeComment(fmt.Sprintf("%q", s))
	return "[" + strings.Join(parts, ", ") + "] /- " + c + " -/"
}

func leanChar(r rune) string {
	switch r {
	case '\\':
		return `'\\'`
	case '\'':
		return `'\''`
	case '\n':
		return `'\n'`
	case '\t':
		return `'\t'`
	case '\r':
		return `'\r'`
	}
	if r < 0x20 || r == 0x7f || r > 0x7e {
		return fmt.Sprintf("(Char.ofNat %d)", r)
	}
	return "'" + string(r) + "'"
}
