// Command gotolean-parse translates the TEXT level of the cron parser of
// go-quartz — ValidateCronExpression, NewCronTrigger(WithLoc), parseCronExpression,
// trimCronExpression, buildCronField, parseField, parseListField, parseRangeField,
// parseStepField, parseDayOfMonthField, parseDayOfWeekField (quartz/cron.go),
// normalize, translateLiteral(s), extract{Range,Step}Values (quartz/util.go), the
// glossaries `months`/`days`, the macro table `special`, the regexp literals and
// the error constructors — from the CURRENT working tree into Lean 4 definitions
// (namespace Generated.TransParse).  It is the sibling of cmd/gotolean-cron
// (Generated.TransCron), whose output the generated file imports: inScope,
// fillRangeValues, fillStepValues, (*cronField).add and structure CronTrigger
// are the definitions of Generated.TransCron.
//
// The output is a function of the source AST: no function body is hard-coded
// here.  What is hard-coded is (a) the list of functions, (b) the fixed prelude
// (Str, StrExt, small slice helpers) and (c) the idioms (library calls routed
// through StrExt, error values, the location parameter, constant-folded
// fmt.Sprintf("%c…")), each of which is CHECKED against the source; a failed
// check, or syntax outside the supported subset inside a listed function, puts
// an entry into `def missing : List String` (and the JSON report) and the
// function is emitted as a comment — never as a guessed body.
//
//	gotolean-parse -repo /repo -out TransParse.lean -json trans_parse.json
package main

import (
	"crypto/sha256"
	"encoding/json"
	"flag"
	"fmt"
	"go/ast"
	"go/importer"
	"go/parser"
	"go/token"
	"go/types"
	"os"
	"path/filepath"
	"sort"
	"strings"
)

const (
	modulePath = "github.com/reugn/go-quartz"
	csmPath    = modulePath + "/internal/csm"
	quartzPath = modulePath + "/quartz"
)

type pkgInfo struct {
	fset  *token.FileSet
	files []*ast.File
	info  *types.Info
	pkg   *types.Package
	dir   string
}

type chainImporter struct {
	known map[string]*types.Package
	next  types.Importer
}

func (c chainImporter) Import(path string) (*types.Package, error) {
	if p, ok := c.known[path]; ok {
		return p, nil
	}
	return c.next.Import(path)
}

func load(fset *token.FileSet, dir, path string, known map[string]*types.Package) (*pkgInfo, error) {
	pkgs, err := parser.ParseDir(fset, dir, func(fi os.FileInfo) bool { return !strings.HasSuffix(fi.Name(), "_test.go") }, parser.ParseComments)
	if err != nil {
		return nil, err
	}
	var files []*ast.File
	for _, p := range pkgs {
		var names []string
		for n := range p.Files {
			names = append(names, n)
		}
		sort.Strings(names)
		for _, n := range names {
			files = append(files, p.Files[n])
		}
	}
	info := &types.Info{
		Types:      map[ast.Expr]types.TypeAndValue{},
		Uses:       map[*ast.Ident]types.Object{},
		Defs:       map[*ast.Ident]types.Object{},
		Selections: map[*ast.SelectorExpr]*types.Selection{},
		Instances:  map[*ast.Ident]types.Instance{},
	}
	conf := types.Config{
		Importer: chainImporter{known, importer.ForCompiler(fset, "source", nil)},
		Error:    func(error) {}, // other files of package quartz may import things we cannot resolve offline
	}
	pkg, _ := conf.Check(path, fset, files, info)
	return &pkgInfo{fset, files, info, pkg, dir}, nil
}

type jsonFn struct {
	Go   string `json:"go"`
	Lean string `json:"lean"`
	Pos  string `json:"pos"`
	Mut  bool   `json:"mutatesReceiver"`
	Fuel bool   `json:"fuel"`
	X    bool   `json:"usesStrExt"`
	OK   bool   `json:"translated"`
	Why  string `json:"why,omitempty"`
}

type jsonOut struct {
	Repo      string            `json:"repo"`
	Files     []string          `json:"files"`
	Functions []jsonFn          `json:"functions"`
	Idioms    map[string]string `json:"idioms"`
	Missing   []string          `json:"missing"`
	SHA256    string            `json:"sha256"`
}

func main() {
	repo := flag.String("repo", "/repo", "go-quartz working tree")
	out := flag.String("out", "TransParse.lean", "Lean output")
	jsonPath := flag.String("json", "", "JSON report")
	flag.Parse()

	fset := token.NewFileSet()
	csm, err := load(fset, filepath.Join(*repo, "internal", "csm"), csmPath, nil)
	if err != nil {
		fmt.Fprintln(os.Stderr, "gotolean-parse:", err)
		os.Exit(3)
	}
	qz, err := load(fset, filepath.Join(*repo, "quartz"), quartzPath, map[string]*types.Package{csmPath: csm.pkg})
	if err != nil {
		fmt.Fprintln(os.Stderr, "gotolean-parse:", err)
		os.Exit(3)
	}

	t := newTranslator(fset, csm, qz, *repo)
	text := t.run()

	if err := os.MkdirAll(filepath.Dir(*out), 0o755); err == nil {
		err = os.WriteFile(*out, []byte(text), 0o644)
	}
	if err != nil {
		fmt.Fprintln(os.Stderr, "gotolean-parse:", err)
		os.Exit(3)
	}
	if *jsonPath != "" {
		jo := jsonOut{Repo: *repo, Files: t.sourceFiles, Idioms: t.idioms, Missing: t.missing, SHA256: fmt.Sprintf("%x", sha256.Sum256([]byte(text)))}
		if jo.Missing == nil {
			jo.Missing = []string{}
		}
		for _, f := range t.order {
			jo.Functions = append(jo.Functions, jsonFn{Go: f.goName, Lean: f.lean, Pos: f.pos, Mut: f.mut, Fuel: f.fuel, X: f.usesX, OK: f.err == nil, Why: errString(f.err)})
		}
		b, _ := json.MarshalIndent(jo, "", "  ")
		_ = os.WriteFile(*jsonPath, append(b, '\n'), 0o644)
	}
	fmt.Printf("gotolean-parse: %d functions, %d missing -> %s\n", len(t.order), len(t.missing), *out)
}

func errString(e error) string {
	if e == nil {
		return ""
	}
	return e.Error()
}
