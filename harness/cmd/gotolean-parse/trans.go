package main

import (
	"fmt"
	"go/ast"
	"go/constant"
	"go/token"
	"go/types"
	"os"
	"sort"
	"strings"
)

func readFile(name string) ([]byte, error) { return os.ReadFile(name) }

func ind(s string) string {
	lines := strings.Split(strings.TrimRight(s, "\n"), "\n")
	for i, l := range lines {
		if l != "" {
			lines[i] = "  " + l
		}
	}
	return strings.Join(lines, "\n")
}

func isAtom(s string) bool {
	if s == "" {
		return false
	}
	for _, r := range s {
		if !(r == '_' || r == '.' || r == '«' || r == '»' || r == '\'' || (r >= '0' && r <= '9') || (r >= 'a' && r <= 'z') || (r >= 'A' && r <= 'Z')) {
			return false
		}
	}
	return s[0] != '\''
}

func paren(s string) string {
	if isAtom(s) {
		return s
	}
	if strings.HasPrefix(s, "(") || strings.HasPrefix(s, "{") {
		open, cl := s[0], byte(')')
		if open == '{' {
			cl = '}'
		}
		depth := 0
		for i := 0; i < len(s); i++ {
			if s[i] == open {
				depth++
			} else if s[i] == cl {
				depth--
				if depth == 0 {
					if i == len(s)-1 {
						return s
					}
					break
				}
			}
		}
	}
	return "(" + s + ")"
}

func leanString(s string) string {
	s = strings.ReplaceAll(s, "\\", "\\\\")
	s = strings.ReplaceAll(s, "\"", "\\\"")
	s = strings.ReplaceAll(s, "\n", " ")
	return "\"" + s + "\""
}

// placeholders for the implicit parameter (X) of the function being translated; its loops take the same one
const (
	phParams = "⟪P⟫"
	phArgs   = "⟪A⟫"
)

// ---------------------------------------------------------------- types

func (t *translator) tryLeanType(ty types.Type) (string, bool) {
	switch u := ty.(type) {
	case *types.Basic:
		switch {
		case u.Info()&types.IsInteger != 0:
			return "Int", true
		case u.Info()&types.IsBoolean != 0:
			return "Bool", true
		case u.Info()&types.IsString != 0:
			return "Str", true
		}
	case *types.Pointer:
		switch {
		case isNamed(u, quartzPath, "cronField"):
			return "Trans.cronField", true
		case isNamed(u, quartzPath, "CronTrigger"):
			return "TransCron.CronTrigger", true
		case isLocation(u):
			return "Bool", true // idiom.location: only "is it nil" is observable
		}
	case *types.Named:
		switch {
		case isErrorType(u):
			return "Option String", true
		case isNamed(u, quartzPath, "boundary"):
			return "boundary", true
		}
		if b, ok := u.Underlying().(*types.Basic); ok && b.Info()&types.IsInteger != 0 {
			return "Int", true
		}
	case *types.Slice:
		if e, ok := t.tryLeanType(u.Elem()); ok {
			return "List " + paren(e), true
		}
	}
	return "", false
}

func (t *translator) leanType(ty types.Type) string {
	s, ok := t.tryLeanType(ty)
	if !ok {
		fail("type %s", ty)
	}
	return s
}

// zero value of a Go type
func (t *translator) zero(ty types.Type) string {
	switch u := ty.(type) {
	case *types.Basic:
		switch {
		case u.Info()&types.IsInteger != 0:
			return "(0 : Int)"
		case u.Info()&types.IsBoolean != 0:
			return "false"
		case u.Info()&types.IsString != 0:
			return "([] : Str)"
		}
	case *types.Slice:
		return "([] : " + t.leanType(ty) + ")"
	case *types.Named:
		if isErrorType(u) {
			return "(none : Option String)"
		}
		if isInteger(u) {
			return "(0 : Int)"
		}
	case *types.Pointer:
		if isNamed(u, quartzPath, "cronField") || isNamed(u, quartzPath, "CronTrigger") {
			// a nil pointer: the all-zero record (only ever returned next to a non-nil error, never read)
			return "(default : " + t.leanType(ty) + ")"
		}
	}
	fail("zero value of type %s", ty)
	return ""
}

// ---------------------------------------------------------------- function context

type fctx struct {
	t     *translator
	f     *fnInfo
	info  *types.Info
	sig   *types.Signature
	n     int
	loops int
	aux   []string
	names map[*types.Var]string
	used  map[string]bool
	wrap  func(payload string) string
	top   bool // wrap is the function-level one
}

func (c *fctx) fresh() string {
	c.n++
	return fmt.Sprintf("r%d", c.n)
}

// every Go variable gets its own Lean name (a later variable of the same Go name — shadowing, sibling scopes — gets a suffix)
func (c *fctx) nameOf(v *types.Var) string {
	if s, ok := c.names[v]; ok {
		return s
	}
	base := leanIdent(v.Name())
	if isLocation(v.Type()) {
		base = leanIdent(v.Name() + "IsNil")
	}
	s := base
	for k := 1; c.used[s]; k++ {
		s = fmt.Sprintf("%s_%d", base, k)
	}
	c.used[s] = true
	c.names[v] = s
	return s
}

func (c *fctx) varOf(id *ast.Ident) *types.Var {
	obj := c.info.Uses[id]
	if obj == nil {
		obj = c.info.Defs[id]
	}
	v, _ := obj.(*types.Var)
	return v
}

func (c *fctx) isPkgLevel(v *types.Var) bool { return v.Parent() == c.t.qz.pkg.Scope() }

func (c *fctx) payloadType() string {
	var parts []string
	for i := 0; i < c.sig.Results().Len(); i++ {
		parts = append(parts, c.t.leanType(c.sig.Results().At(i).Type()))
	}
	switch len(parts) {
	case 0:
		return "Unit"
	case 1:
		return parts[0]
	}
	for i := range parts {
		if strings.Contains(parts[i], "×") {
			parts[i] = "(" + parts[i] + ")"
		}
	}
	return strings.Join(parts, " × ")
}

func (c *fctx) retType() string {
	p := c.payloadType()
	if c.f.fuel {
		return "Option " + paren(p)
	}
	return p
}

func tupleOf(names []string) string {
	switch len(names) {
	case 0:
		return "()"
	case 1:
		return names[0]
	}
	return "(" + strings.Join(names, ", ") + ")"
}

// ---------------------------------------------------------------- AST queries

func rootIdent(e ast.Expr) *ast.Ident {
	for {
		switch x := e.(type) {
		case *ast.Ident:
			return x
		case *ast.ParenExpr:
			e = x.X
		case *ast.SelectorExpr:
			e = x.X
		case *ast.IndexExpr:
			e = x.X
		case *ast.StarExpr:
			e = x.X
		default:
			return nil
		}
	}
}

func hasReturn(n ast.Node) bool {
	found := false
	ast.Inspect(n, func(m ast.Node) bool {
		if _, ok := m.(*ast.ReturnStmt); ok {
			found = true
		}
		return !found
	})
	return found
}

func hasBranch(n ast.Node) bool {
	found := false
	ast.Inspect(n, func(m ast.Node) bool {
		if _, ok := m.(*ast.BranchStmt); ok {
			found = true
		}
		return !found
	})
	return found
}

func (c *fctx) callee(call *ast.CallExpr) *fnInfo {
	switch fn := call.Fun.(type) {
	case *ast.Ident:
		return c.t.fns[c.info.Uses[fn]]
	case *ast.SelectorExpr:
		if s := c.info.Selections[fn]; s != nil && s.Kind() == types.MethodVal {
			return c.t.fns[s.Obj()]
		}
	}
	return nil
}

// needsBind: the call returns Option (fuel)
func (c *fctx) needsBind(call *ast.CallExpr) bool {
	if cf := c.callee(call); cf != nil {
		return cf.fuel
	}
	return false
}

func (c *fctx) hasBind(n ast.Node) bool {
	found := false
	ast.Inspect(n, func(m ast.Node) bool {
		if x, ok := m.(*ast.CallExpr); ok && c.needsBind(x) {
			found = true
		}
		return !found
	})
	return found
}

// local variables (incl. parameters) declared outside [from,to) and assigned inside the nodes
func (c *fctx) mutated(nodes []ast.Node, from, to token.Pos) []*types.Var {
	set := map[*types.Var]bool{}
	mark := func(e ast.Expr) {
		id := rootIdent(e)
		if id == nil || id.Name == "_" {
			return
		}
		if v := c.varOf(id); v != nil && !v.IsField() && !c.isPkgLevel(v) && (v.Pos() < from || v.Pos() >= to) {
			set[v] = true
		}
	}
	for _, n := range nodes {
		if n == nil {
			continue
		}
		ast.Inspect(n, func(m ast.Node) bool {
			switch x := m.(type) {
			case *ast.AssignStmt:
				for _, l := range x.Lhs {
					mark(l)
				}
			case *ast.IncDecStmt:
				mark(x.X)
			case *ast.ExprStmt:
				if call, ok := x.X.(*ast.CallExpr); ok {
					if isPkgMember(c.info, call.Fun, "sort", "Ints") && len(call.Args) == 1 {
						mark(call.Args[0])
					}
					if cf := c.callee(call); cf != nil && cf.mut {
						mark(call.Fun.(*ast.SelectorExpr).X)
					}
				}
			}
			return true
		})
	}
	var out []*types.Var
	for v := range set {
		out = append(out, v)
	}
	sort.Slice(out, func(i, j int) bool { return out[i].Pos() < out[j].Pos() })
	return out
}

// local variables declared outside [from,to) and used inside the nodes
func (c *fctx) freeVars(nodes []ast.Node, from, to token.Pos) []*types.Var {
	set := map[*types.Var]bool{}
	for _, n := range nodes {
		if n == nil {
			continue
		}
		ast.Inspect(n, func(m ast.Node) bool {
			if id, ok := m.(*ast.Ident); ok {
				if v, ok := c.info.Uses[id].(*types.Var); ok && !v.IsField() && !c.isPkgLevel(v) && v.Pkg() == c.t.qz.pkg && (v.Pos() < from || v.Pos() >= to) {
					set[v] = true
				}
			}
			return true
		})
	}
	var out []*types.Var
	for v := range set {
		out = append(out, v)
	}
	sort.Slice(out, func(i, j int) bool { return out[i].Pos() < out[j].Pos() })
	return out
}

// ---------------------------------------------------------------- expressions

func (c *fctx) constText(e ast.Expr, v string) string {
	if strings.HasPrefix(v, "-") {
		v = "(" + v + ")"
	}
	if _, ok := unparen(e).(*ast.BasicLit); ok {
		return v
	}
	src := c.t.srcText(e)
	if src == strings.Trim(v, "()") {
		return v
	}
	return "(" + strings.Trim(v, "()") + " /- " + src + " -/)"
}

func (c *fctx) isNil(e ast.Expr) bool {
	id, ok := unparen(e).(*ast.Ident)
	if !ok {
		return false
	}
	_, isNil := c.info.Uses[id].(*types.Nil)
	return isNil
}

func (c *fctx) expr(e ast.Expr) string {
	info := c.info
	if tv, ok := info.Types[e]; ok && tv.Value != nil {
		switch tv.Value.Kind() {
		case constant.Int:
			if b, ok := tv.Type.Underlying().(*types.Basic); ok && (b.Kind() == types.Int32 || b.Kind() == types.UntypedRune) {
				if v, ok := constant.Int64Val(tv.Value); ok {
					return leanChar(rune(v)) + " /- " + c.t.srcText(e) + " -/"
				}
			}
			return c.constText(e, tv.Value.ExactString())
		case constant.Bool:
			if constant.BoolVal(tv.Value) {
				return "true"
			}
			return "false"
		case constant.String:
			s := leanChars(constant.StringVal(tv.Value))
			if _, isLit := unparen(e).(*ast.BasicLit); !isLit {
				s = strings.TrimSuffix(s, " -/") + " = " + c.t.srcText(e) + " -/"
			}
			return "(" + s + ")"
		}
	}
	switch x := e.(type) {
	case *ast.ParenExpr:
		return paren(c.expr(x.X))
	case *ast.Ident:
		switch obj := info.Uses[x].(type) {
		case *types.Var:
			if c.isPkgLevel(obj) {
				if isErrorType(obj.Type()) {
					return c.errExpr(x)
				}
				return c.t.pkgVar(obj, x)
			}
			if isLocation(obj.Type()) {
				fail("location %s used as a value at %s (idiom.location)", x.Name, c.t.posOf(x))
			}
			if _, ok := c.t.tryLeanType(obj.Type()); !ok {
				fail("variable %s of type %s", x.Name, obj.Type())
			}
			return c.nameOf(obj)
		case *types.Nil:
			fail("nil at %s", c.t.posOf(x))
		}
	case *ast.SelectorExpr:
		if s := info.Selections[x]; s != nil && s.Kind() == types.FieldVal {
			if _, ok := c.t.tryLeanType(s.Type()); !ok || isLocation(s.Type()) {
				fail("field %s of type %s", x.Sel.Name, s.Type())
			}
			return paren(c.expr(x.X)) + "." + leanIdent(x.Sel.Name)
		}
	case *ast.StarExpr:
		return c.expr(x.X)
	case *ast.UnaryExpr:
		switch x.Op {
		case token.NOT:
			return "!" + paren(c.expr(x.X))
		case token.SUB:
			return "(-" + paren(c.expr(x.X)) + ")"
		case token.AND:
			if cl, ok := unparen(x.X).(*ast.CompositeLit); ok {
				return c.composite(cl)
			}
		}
	case *ast.CompositeLit:
		return c.composite(x)
	case *ast.BinaryExpr:
		return c.binary(x)
	case *ast.IndexExpr:
		tv := info.Types[x.X]
		if sl, ok := tv.Type.Underlying().(*types.Slice); ok {
			switch {
			case isInteger(sl.Elem()):
				return "Trans.idx " + paren(c.expr(x.X)) + " " + paren(c.expr(x.Index))
			case isString(sl.Elem()):
				return "strIdx " + paren(c.expr(x.X)) + " " + paren(c.expr(x.Index))
			case isNamed(sl.Elem(), quartzPath, "cronField"):
				return "Trans.idxD " + paren(c.expr(x.X)) + " " + paren(c.expr(x.Index))
			}
		}
		fail("index into %s at %s", tv.Type, c.t.posOf(x))
	case *ast.CallExpr:
		return c.call(x)
	}
	fail("expression %s at %s", c.t.srcText(e), c.t.posOf(e))
	return ""
}

func (c *fctx) binary(x *ast.BinaryExpr) string {
	info := c.info
	// comparisons with nil
	if x.Op == token.EQL || x.Op == token.NEQ {
		var other ast.Expr
		if c.isNil(x.Y) {
			other = x.X
		} else if c.isNil(x.X) {
			other = x.Y
		}
		if other != nil {
			ty := info.Types[other].Type
			switch {
			case isErrorType(ty):
				if x.Op == token.EQL {
					return paren(c.errExpr(other)) + ".isNone"
				}
				return paren(c.errExpr(other)) + ".isSome"
			case isLocation(ty):
				id, ok := unparen(other).(*ast.Ident)
				if !ok {
					fail("nil test of %s at %s (idiom.location)", c.t.srcText(other), c.t.posOf(x))
				}
				v := c.varOf(id)
				if v == nil || c.isPkgLevel(v) {
					fail("nil test of %s at %s (idiom.location)", c.t.srcText(other), c.t.posOf(x))
				}
				if x.Op == token.EQL {
					return c.nameOf(v)
				}
				return "!" + c.nameOf(v)
			}
			fail("comparison of %s with nil at %s", ty, c.t.posOf(x))
		}
	}
	a, b := paren(c.expr(x.X)), paren(c.expr(x.Y))
	ty := info.Types[x.X].Type
	switch {
	case isBoolean(ty):
		switch x.Op {
		case token.LAND:
			return a + " && " + b
		case token.LOR:
			return a + " || " + b
		case token.EQL:
			return a + " == " + b
		case token.NEQ:
			return a + " != " + b
		}
	case isString(ty):
		switch x.Op {
		case token.EQL:
			return "decide (" + a + " = " + b + ")"
		case token.NEQ:
			return "decide (" + a + " ≠ " + b + ")"
		case token.ADD:
			return a + " ++ " + b
		}
	case isInteger(ty):
		switch x.Op {
		case token.ADD:
			return a + " + " + b
		case token.SUB:
			return a + " - " + b
		case token.MUL:
			return a + " * " + b
		case token.QUO:
			return "Int.tdiv " + a + " " + b
		case token.REM:
			return "Int.tmod " + a + " " + b
		case token.EQL:
			return "decide (" + a + " = " + b + ")"
		case token.NEQ:
			return "decide (" + a + " ≠ " + b + ")"
		case token.LSS:
			return "decide (" + a + " < " + b + ")"
		case token.LEQ:
			return "decide (" + a + " ≤ " + b + ")"
		case token.GTR:
			return "decide (" + a + " > " + b + ")"
		case token.GEQ:
			return "decide (" + a + " ≥ " + b + ")"
		}
	}
	fail("operator %s on type %s at %s", x.Op, ty, c.t.posOf(x))
	return ""
}

func (c *fctx) composite(cl *ast.CompositeLit) string {
	info := c.info
	ty := info.Types[cl].Type
	if sl, ok := ty.Underlying().(*types.Slice); ok {
		var elts []string
		for _, e := range cl.Elts {
			if _, isKV := e.(*ast.KeyValueExpr); isKV {
				fail("keyed slice literal at %s", c.t.posOf(cl))
			}
			elts = append(elts, c.exprAs(e, sl.Elem()))
		}
		return "([" + strings.Join(elts, ", ") + "] : " + c.t.leanType(ty) + ")"
	}
	st, ok := ty.Underlying().(*types.Struct)
	if !ok {
		fail("composite literal of type %s at %s", ty, c.t.posOf(cl))
	}
	lt := ""
	switch {
	case isNamed(ty, quartzPath, "boundary"):
		lt = "boundary"
	case isNamed(ty, quartzPath, "cronField"):
		lt = "Trans.cronField"
	case isNamed(ty, quartzPath, "CronTrigger"):
		lt = "TransCron.CronTrigger"
	default:
		fail("composite literal of type %s at %s", ty, c.t.posOf(cl))
	}
	vals := map[string]string{}
	for i, e := range cl.Elts {
		var fld *types.Var
		var val ast.Expr
		if kv, isKV := e.(*ast.KeyValueExpr); isKV {
			name := kv.Key.(*ast.Ident).Name
			for k := 0; k < st.NumFields(); k++ {
				if st.Field(k).Name() == name {
					fld = st.Field(k)
				}
			}
			val = kv.Value
		} else {
			fld, val = st.Field(i), e
		}
		if fld == nil {
			fail("composite literal field at %s", c.t.posOf(e))
		}
		if isLocation(fld.Type()) {
			// idiom.location: the field is the (L : LocExt) parameter of the trigger's methods; it must be the function's own parameter
			id, ok := unparen(val).(*ast.Ident)
			if !ok || c.varOf(id) == nil || c.isPkgLevel(c.varOf(id)) {
				fail("location field set from %s at %s (idiom.location)", c.t.srcText(val), c.t.posOf(val))
			}
			continue
		}
		v := c.exprAs(val, fld.Type())
		if lt == "TransCron.CronTrigger" && isString(fld.Type()) {
			v = "String.ofList " + paren(v)
		}
		vals[fld.Name()] = v
	}
	var parts []string
	for k := 0; k < st.NumFields(); k++ {
		f := st.Field(k)
		if isLocation(f.Type()) {
			continue
		}
		v, ok := vals[f.Name()]
		if !ok {
			if lt == "TransCron.CronTrigger" && isString(f.Type()) {
				v = "\"\""
			} else {
				v = c.t.zero(f.Type())
			}
		}
		parts = append(parts, leanIdent(f.Name())+" := "+v)
	}
	return "({ " + strings.Join(parts, ", ") + " } : " + lt + ")"
}

// exprAs: e in a position of Go type ty (nil and error values need the type)
func (c *fctx) exprAs(e ast.Expr, ty types.Type) string {
	if c.isNil(e) {
		if isLocation(ty) {
			return "true /- nil -/"
		}
		return c.t.zero(ty)
	}
	if isErrorType(ty) {
		return c.errExpr(e)
	}
	if isLocation(ty) {
		if p, n, ok := pkgOf(c.info, e); ok && p == "time" && (n == "UTC" || n == "Local") {
			return "false /- time." + n + " is not nil -/"
		}
		if id, ok := unparen(e).(*ast.Ident); ok {
			if v := c.varOf(id); v != nil && !c.isPkgLevel(v) {
				return c.nameOf(v)
			}
		}
		fail("location argument %s at %s (idiom.location)", c.t.srcText(e), c.t.posOf(e))
	}
	return c.expr(e)
}

// idiom "errors": an error value is nil, a package-level sentinel `ErrX`, a constructor call `newX(…)`, or a local variable.
// A constructor call becomes `some "newX: <constant parts of the arguments>"`; the sentinel it wraps is in `errorCtors`.
func (c *fctx) errExpr(e ast.Expr) string {
	if c.isNil(e) {
		return "(none : Option String)"
	}
	switch x := unparen(e).(type) {
	case *ast.Ident:
		if v, ok := c.info.Uses[x].(*types.Var); ok && isErrorType(v.Type()) {
			if c.isPkgLevel(v) {
				c.t.errVals[x.Name] = true
				return "some " + leanString(x.Name)
			}
			return c.nameOf(v)
		}
	case *ast.CallExpr:
		if id, ok := x.Fun.(*ast.Ident); ok {
			if fn, ok := c.info.Uses[id].(*types.Func); ok && fn.Pkg() == c.t.qz.pkg {
				if _, known := c.t.errCtors[id.Name]; !known {
					fail("error constructor %s at %s (idiom.errorCtors)", id.Name, c.t.posOf(x))
				}
				var parts []string
				for _, a := range x.Args {
					parts = append(parts, c.errPart(a))
				}
				c.t.errVals[id.Name+"(…)"] = true
				return "some " + leanString(id.Name+": "+strings.Join(parts, ", "))
			}
		}
	}
	fail("error value %s at %s (idiom.errors)", c.t.srcText(e), c.t.posOf(e))
	return ""
}

// the constant part of an error-message argument: a constant string, the format of fmt.Sprintf(format, …), else "_"
func (c *fctx) errPart(a ast.Expr) string {
	if s, ok := constString(c.info, a); ok {
		return s
	}
	if call, ok := unparen(a).(*ast.CallExpr); ok && isPkgMember(c.info, call.Fun, "fmt", "Sprintf") && len(call.Args) >= 1 {
		if s, ok := constString(c.info, call.Args[0]); ok {
			return s
		}
	}
	return "_"
}

func (c *fctx) implicitArgs(f *fnInfo) string {
	if f.usesX {
		c.f.usesX = true
		return " X"
	}
	return ""
}

// callText: a call of a listed/imported function, without the bind
func (c *fctx) callText(cf *fnInfo, call *ast.CallExpr) string {
	sig := cf.obj.Type().(*types.Signature)
	s := cf.lean + c.implicitArgs(cf)
	if cf.recv != nil {
		s += " " + paren(c.expr(call.Fun.(*ast.SelectorExpr).X))
	}
	if sig.Variadic() || len(call.Args) != sig.Params().Len() {
		fail("call of %s with %d arguments", cf.goName, len(call.Args))
	}
	for i, a := range call.Args {
		s += " " + paren(c.exprAs(a, sig.Params().At(i).Type()))
	}
	if cf.fuel {
		s += " fuel"
	}
	return s
}

func (c *fctx) ext(op string) string {
	c.f.usesX = true
	c.t.extOps[op] = true
	return "X." + op
}

func (c *fctx) call(call *ast.CallExpr) string {
	info := c.info
	// conversions between integer types: identity (no overflow is modelled)
	if tv, ok := info.Types[call.Fun]; ok && tv.IsType() && len(call.Args) == 1 {
		if isInteger(tv.Type) && isInteger(info.Types[call.Args[0]].Type) {
			return c.expr(call.Args[0])
		}
		fail("conversion %s at %s", c.t.srcText(call), c.t.posOf(call))
	}
	if c.needsBind(call) {
		fail("call %s needs fuel and must stand alone on the right-hand side of an assignment or in a return (at %s)", c.t.srcText(call.Fun), c.t.posOf(call))
	}
	if cf := c.callee(call); cf != nil {
		if cf.err != nil {
			fail("calls %s, which is not translated", cf.goName)
		}
		if cf.mut {
			fail("call of receiver-mutating %s inside an expression", cf.goName)
		}
		return c.callText(cf, call)
	}
	arg := func(i int) string { return paren(c.expr(call.Args[i])) }
	switch fn := call.Fun.(type) {
	case *ast.Ident:
		if b, ok := info.Uses[fn].(*types.Builtin); ok {
			switch b.Name() {
			case "len":
				if _, ok := info.Types[call.Args[0]].Type.Underlying().(*types.Slice); ok {
					return "(" + arg(0) + ".length : Int)"
				}
			case "append":
				if call.Ellipsis != token.NoPos && len(call.Args) == 2 {
					return arg(0) + " ++ " + arg(1)
				}
				if call.Ellipsis == token.NoPos && len(call.Args) >= 2 {
					sl := info.Types[call.Args[0]].Type.Underlying().(*types.Slice)
					var elts []string
					for _, a := range call.Args[1:] {
						elts = append(elts, c.exprAs(a, sl.Elem()))
					}
					return arg(0) + " ++ [" + strings.Join(elts, ", ") + "]"
				}
			case "make":
				if _, ok := info.Types[call.Args[0]].Type.Underlying().(*types.Slice); ok && len(call.Args) >= 2 {
					ty := info.Types[call.Args[0]].Type
					if v, isConst := constInt(info, call.Args[1]); isConst && v == 0 {
						return "([] : " + c.t.leanType(ty) + ") /- " + c.t.srcText(call) + " -/"
					}
					sl := ty.Underlying().(*types.Slice)
					return "(List.replicate (Int.toNat " + arg(1) + ") " + c.t.zero(sl.Elem()) + " : " + c.t.leanType(ty) + ")"
				}
			}
			fail("builtin %s at %s", c.t.srcText(call), c.t.posOf(call))
		}
		if isErrorType(info.Types[call].Type) {
			return c.errExpr(call)
		}
	case *ast.SelectorExpr:
		if p, n, ok := pkgOf(info, fn); ok {
			switch p + "." + n {
			case "strings.Split":
				if len(call.Args) == 2 {
					return c.ext("split") + " " + arg(0) + " " + arg(1)
				}
			case "strings.ContainsRune":
				if len(call.Args) == 2 {
					if _, isConst := constInt(info, call.Args[1]); !isConst {
						fail("strings.ContainsRune with a non-constant rune at %s", c.t.posOf(call))
					}
					return c.ext("containsRune") + " " + arg(0) + " " + arg(1)
				}
			case "strings.ToUpper":
				if len(call.Args) == 1 {
					return c.ext("toUpper") + " " + arg(0)
				}
			case "strings.TrimSpace":
				if len(call.Args) == 1 {
					return c.ext("trimSpace") + " " + arg(0)
				}
			case "strings.TrimSuffix":
				if len(call.Args) == 2 {
					return c.ext("trimSuffix") + " " + arg(0) + " " + arg(1)
				}
			case "fmt.Sprintf":
				// idiom.sprintfRunes: a format made of %c verbs only, with constant rune arguments, is folded
				if f, ok := constString(info, call.Args[0]); ok && len(f) == 2*(len(call.Args)-1) && strings.Count(f, "%c") == len(call.Args)-1 {
					var out []rune
					for _, a := range call.Args[1:] {
						v, ok := constInt(info, a)
						if !ok {
							fail("fmt.Sprintf(%q, …) with a non-constant argument at %s", f, c.t.posOf(call))
						}
						out = append(out, rune(v))
					}
					c.t.extOps["(folded) fmt.Sprintf(\"%c…\", constant runes)"] = true
					s := leanChars(string(out))
					return "(" + strings.TrimSuffix(s, " -/") + " = " + c.t.srcText(call) + " -/)"
				}
			}
			fail("call %s.%s at %s (not in the StrExt interface)", p, n, c.t.posOf(call))
		}
		if s := info.Selections[fn]; s != nil && s.Kind() == types.MethodVal && isRegexp(s.Recv()) {
			id, ok := unparen(fn.X).(*ast.Ident)
			var v *types.Var
			if ok {
				v, _ = info.Uses[id].(*types.Var)
			}
			if v == nil || !c.isPkgLevel(v) {
				fail("regexp method on something other than a package-level pattern at %s", c.t.posOf(call))
			}
			pat := c.t.pkgVar(v, call)
			switch {
			case fn.Sel.Name == "MatchString" && len(call.Args) == 1:
				return c.ext("reMatch") + " " + pat + " " + arg(0)
			case fn.Sel.Name == "ReplaceAllString" && len(call.Args) == 2:
				return c.ext("reReplaceAll") + " " + pat + " " + arg(0) + " " + arg(1)
			}
			fail("regexp method %s at %s (not in the StrExt interface)", fn.Sel.Name, c.t.posOf(call))
		}
	}
	fail("call %s at %s", c.t.srcText(call.Fun), c.t.posOf(call))
	return ""
}

// ---------------------------------------------------------------- statements

func (c *fctx) block(list []ast.Stmt, k func() string) string {
	if len(list) == 0 {
		return k()
	}
	rest := func() string { return c.block(list[1:], k) }
	switch s := list[0].(type) {
	case *ast.ReturnStmt:
		return c.ret(s)
	case *ast.AssignStmt:
		return c.assign(s, rest)
	case *ast.DeclStmt:
		return c.declStmt(s, rest)
	case *ast.IncDecStmt:
		op := " + 1"
		if s.Tok == token.DEC {
			op = " - 1"
		}
		return c.store(s.X, paren(c.expr(s.X))+op) + "\n" + rest()
	case *ast.IfStmt:
		return c.ifStmt(s, rest)
	case *ast.SwitchStmt:
		return c.switchStmt(s, rest)
	case *ast.RangeStmt:
		return c.rangeLoop(s, rest)
	case *ast.ExprStmt:
		return c.exprStmt(s, rest)
	case *ast.BlockStmt:
		return c.block(s.List, rest)
	}
	fail("statement %T at %s", list[0], c.t.posOf(list[0]))
	return ""
}

func (c *fctx) ret(s *ast.ReturnStmt) string {
	res := c.sig.Results()
	// return f(…) with f returning all results
	if len(s.Results) == 1 {
		if call, ok := unparen(s.Results[0]).(*ast.CallExpr); ok {
			if cf := c.callee(call); cf != nil {
				if cf.err != nil {
					fail("calls %s, which is not translated", cf.goName)
				}
				cres := cf.obj.Type().(*types.Signature).Results()
				if cres.Len() != res.Len() || cf.mut {
					fail("return of %s at %s", cf.goName, c.t.posOf(s))
				}
				for i := 0; i < res.Len(); i++ {
					if !types.Identical(cres.At(i).Type(), res.At(i).Type()) {
						fail("return of %s: result types differ at %s", cf.goName, c.t.posOf(s))
					}
				}
				txt := c.callText(cf, call)
				if cf.fuel {
					if c.top {
						return txt // `(f …).bind some`
					}
					r := c.fresh()
					return "(" + txt + ").bind fun " + r + " =>\n" + c.wrap(r)
				}
				return c.wrap(txt)
			}
		}
	}
	if len(s.Results) != res.Len() {
		fail("return with %d values for %d results at %s", len(s.Results), res.Len(), c.t.posOf(s))
	}
	var vals []string
	for i, e := range s.Results {
		vals = append(vals, c.exprAs(e, res.At(i).Type()))
	}
	return c.wrap(tupleOf(vals))
}

// store: `lhs = val` as a `let`
func (c *fctx) store(lhs ast.Expr, val string) string {
	switch x := unparen(lhs).(type) {
	case *ast.Ident:
		if x.Name == "_" {
			return "let _ := " + val
		}
		v := c.varOf(x)
		if v == nil || c.isPkgLevel(v) {
			fail("assignment to %s at %s", x.Name, c.t.posOf(x))
		}
		return "let " + c.nameOf(v) + " := " + val
	case *ast.IndexExpr:
		if sl, ok := c.info.Types[x.X].Type.Underlying().(*types.Slice); ok {
			if _, ok := c.t.tryLeanType(sl.Elem()); ok {
				return c.store(x.X, "setAt "+paren(c.expr(x.X))+" "+paren(c.expr(x.Index))+" "+paren(val))
			}
		}
	case *ast.SelectorExpr:
		if s := c.info.Selections[x]; s != nil && s.Kind() == types.FieldVal {
			if _, ok := c.t.tryLeanType(s.Type()); ok && !isLocation(s.Type()) {
				base := paren(c.expr(x.X))
				return c.store(x.X, "{ "+base+" with "+leanIdent(x.Sel.Name)+" := "+val+" }")
			}
		}
	}
	fail("assignment target %s at %s", c.t.srcText(lhs), c.t.posOf(lhs))
	return ""
}

func proj(r string, i, n int) string {
	s := r
	for k := 0; k < i; k++ {
		s += ".2"
	}
	if i < n-1 {
		s += ".1"
	}
	return s
}

func (c *fctx) lhsType(e ast.Expr) types.Type {
	if id, ok := e.(*ast.Ident); ok {
		if id.Name == "_" {
			return nil
		}
		if v := c.varOf(id); v != nil {
			return v.Type()
		}
	}
	return c.info.Types[e].Type
}

func (c *fctx) assign(s *ast.AssignStmt, rest func() string) string {
	info := c.info
	if s.Tok != token.ASSIGN && s.Tok != token.DEFINE {
		var op token.Token
		switch s.Tok {
		case token.ADD_ASSIGN:
			op = token.ADD
		case token.SUB_ASSIGN:
			op = token.SUB
		case token.MUL_ASSIGN:
			op = token.MUL
		default:
			fail("assignment operator %s at %s", s.Tok, c.t.posOf(s))
		}
		if len(s.Lhs) != 1 || len(s.Rhs) != 1 || !isInteger(info.Types[s.Lhs[0]].Type) {
			fail("assignment at %s", c.t.posOf(s))
		}
		return c.store(s.Lhs[0], paren(c.expr(s.Lhs[0]))+" "+op.String()+" "+paren(c.expr(s.Rhs[0]))) + "\n" + rest()
	}
	destructure := func(r string, n int) string {
		var lines []string
		for i, l := range s.Lhs {
			p := r
			if n > 1 {
				p = proj(r, i, n)
			}
			lines = append(lines, c.store(l, p))
		}
		return strings.Join(lines, "\n") + "\n" + rest()
	}
	if len(s.Rhs) == 1 && len(s.Lhs) >= 1 {
		switch rhs := unparen(s.Rhs[0]).(type) {
		case *ast.CallExpr:
			// n, err := strconv.Atoi(s)
			if isPkgMember(info, rhs.Fun, "strconv", "Atoi") && len(s.Lhs) == 2 && len(rhs.Args) == 1 {
				r := c.fresh()
				return "let " + r + " := atoiPair (" + c.ext("atoi") + " " + paren(c.expr(rhs.Args[0])) + ")\n" + destructure(r, 2)
			}
			if cf := c.callee(rhs); cf != nil {
				if cf.err != nil {
					fail("calls %s, which is not translated", cf.goName)
				}
				if cf.mut {
					fail("call of receiver-mutating %s at %s", cf.goName, c.t.posOf(s))
				}
				nres := cf.obj.Type().(*types.Signature).Results().Len()
				if nres != len(s.Lhs) {
					fail("assignment of %d results to %d variables at %s", nres, len(s.Lhs), c.t.posOf(s))
				}
				if nres >= 2 || cf.fuel {
					r := c.fresh()
					if cf.fuel {
						return "(" + c.callText(cf, rhs) + ").bind fun " + r + " =>\n" + destructure(r, nres)
					}
					return "let " + r + " := " + c.callText(cf, rhs) + "\n" + destructure(r, nres)
				}
			}
		case *ast.IndexExpr:
			// value, ok := m[key] on a package-level map[string]string
			if len(s.Lhs) == 2 {
				id, ok := unparen(rhs.X).(*ast.Ident)
				var v *types.Var
				if ok {
					v, _ = info.Uses[id].(*types.Var)
				}
				if _, isMap := info.Types[rhs.X].Type.Underlying().(*types.Map); !isMap || v == nil || !c.isPkgLevel(v) {
					fail("comma-ok index at %s", c.t.posOf(s))
				}
				r := c.fresh()
				return "let " + r + " := mapLookup " + c.t.pkgVar(v, rhs) + " " + paren(c.expr(rhs.Index)) + "\n" + destructure(r, 2)
			}
		}
	}
	if len(s.Lhs) != len(s.Rhs) {
		fail("assignment of %d values to %d targets at %s", len(s.Rhs), len(s.Lhs), c.t.posOf(s))
	}
	if len(s.Lhs) == 1 {
		ty := c.lhsType(s.Lhs[0])
		var v string
		if ty != nil {
			v = c.exprAs(s.Rhs[0], ty)
		} else {
			v = c.expr(s.Rhs[0])
		}
		return c.store(s.Lhs[0], v) + "\n" + rest()
	}
	// parallel assignment through temporaries
	var lines []string
	tmp := make([]string, len(s.Rhs))
	for i, r := range s.Rhs {
		var v string
		if ty := c.lhsType(s.Lhs[i]); ty != nil {
			v = c.exprAs(r, ty)
		} else {
			v = c.expr(r)
		}
		tmp[i] = c.fresh()
		lines = append(lines, "let "+tmp[i]+" := "+v)
	}
	for i, l := range s.Lhs {
		lines = append(lines, c.store(l, tmp[i]))
	}
	return strings.Join(lines, "\n") + "\n" + rest()
}

func (c *fctx) declStmt(s *ast.DeclStmt, rest func() string) string {
	gd, ok := s.Decl.(*ast.GenDecl)
	if !ok || gd.Tok != token.VAR {
		fail("declaration at %s", c.t.posOf(s))
	}
	var lines []string
	for _, sp := range gd.Specs {
		vs := sp.(*ast.ValueSpec)
		if len(vs.Values) != 0 && len(vs.Values) != len(vs.Names) {
			fail("var declaration at %s", c.t.posOf(s))
		}
		for i, id := range vs.Names {
			v, _ := c.info.Defs[id].(*types.Var)
			if v == nil {
				fail("var declaration at %s", c.t.posOf(s))
			}
			val := ""
			if len(vs.Values) > 0 {
				val = c.exprAs(vs.Values[i], v.Type())
			} else {
				val = c.t.zero(v.Type())
			}
			lines = append(lines, "let "+c.nameOf(v)+" : "+c.t.leanType(v.Type())+" := "+val)
		}
	}
	return strings.Join(lines, "\n") + "\n" + rest()
}

func (c *fctx) exprStmt(s *ast.ExprStmt, rest func() string) string {
	call, ok := s.X.(*ast.CallExpr)
	if !ok {
		fail("expression statement %s at %s", c.t.srcText(s), c.t.posOf(s))
	}
	// sort.Ints(xs): sorts in place
	if isPkgMember(c.info, call.Fun, "sort", "Ints") && len(call.Args) == 1 {
		return c.store(call.Args[0], c.ext("sortInts")+" "+paren(c.expr(call.Args[0]))) + "\n" + rest()
	}
	// x.m(…) with m assigning through its receiver and returning nothing else
	if cf := c.callee(call); cf != nil && cf.mut && cf.obj.Type().(*types.Signature).Results().Len() == 0 {
		if cf.err != nil {
			fail("calls %s, which is not translated", cf.goName)
		}
		recv := call.Fun.(*ast.SelectorExpr).X
		if cf.fuel {
			r := c.fresh()
			return "(" + c.callText(cf, call) + ").bind fun " + r + " =>\n" + c.store(recv, r) + "\n" + rest()
		}
		return c.store(recv, c.callText(cf, call)) + "\n" + rest()
	}
	fail("expression statement %s at %s", c.t.srcText(s), c.t.posOf(s))
	return ""
}

func (c *fctx) varNames(vs []*types.Var) []string {
	var out []string
	for _, v := range vs {
		out = append(out, c.nameOf(v))
	}
	return out
}

func (c *fctx) tupleType(vs []*types.Var) string {
	if len(vs) == 0 {
		return "Unit"
	}
	var parts []string
	for _, v := range vs {
		p := c.t.leanType(v.Type())
		if len(vs) > 1 && strings.Contains(p, "×") {
			p = "(" + p + ")"
		}
		parts = append(parts, p)
	}
	return strings.Join(parts, " × ")
}

type branch struct {
	cond ast.Expr // nil = else
	body []ast.Stmt
}

func (c *fctx) ifStmt(s *ast.IfStmt, rest func() string) string {
	if s.Init != nil {
		// the init statement's variables are scoped to the if; every variable has its own Lean name, so it can simply go first
		return c.block([]ast.Stmt{s.Init}, func() string {
			cp := *s
			cp.Init = nil
			return c.ifStmt(&cp, rest)
		})
	}
	var brs []branch
	cur := s
	for {
		brs = append(brs, branch{cur.Cond, cur.Body.List})
		switch e := cur.Else.(type) {
		case nil:
			brs = append(brs, branch{nil, nil})
		case *ast.BlockStmt:
			brs = append(brs, branch{nil, e.List})
		case *ast.IfStmt:
			if e.Init != nil {
				fail("else-if with an init statement at %s", c.t.posOf(e))
			}
			cur = e
			continue
		}
		break
	}
	return c.branches(brs, s, rest)
}

// switch { case c1: …; case c2: …; default: … } = if c1 {…} else if c2 {…} else {…}
func (c *fctx) switchStmt(s *ast.SwitchStmt, rest func() string) string {
	if s.Init != nil || s.Tag != nil {
		fail("switch with an init statement or a tag at %s", c.t.posOf(s))
	}
	if hasBranch(s.Body) {
		fail("break/fallthrough in the switch at %s", c.t.posOf(s))
	}
	var brs []branch
	var def *branch
	for _, st := range s.Body.List {
		cc := st.(*ast.CaseClause)
		if cc.List == nil {
			def = &branch{nil, cc.Body}
			continue
		}
		if def != nil {
			fail("default is not the last case of the switch at %s", c.t.posOf(s))
		}
		if len(cc.List) != 1 {
			fail("case with %d expressions at %s", len(cc.List), c.t.posOf(cc))
		}
		brs = append(brs, branch{cc.List[0], cc.Body})
	}
	if def == nil {
		def = &branch{nil, nil}
	}
	brs = append(brs, *def)
	return c.branches(brs, s, rest)
}

func (c *fctx) branches(brs []branch, whole ast.Node, rest func() string) string {
	exits := false
	var nodes []ast.Node
	for _, b := range brs {
		for _, st := range b.body {
			nodes = append(nodes, st)
			if hasReturn(st) || hasBranch(st) || c.hasBind(st) {
				exits = true
			}
		}
	}
	var build func(i int, k func() string) string
	build = func(i int, k func() string) string {
		b := brs[i]
		if b.cond == nil {
			return c.block(b.body, k)
		}
		return "if " + c.expr(b.cond) + " then\n" + ind(c.block(b.body, k)) + "\nelse\n" + ind(build(i+1, k))
	}
	if exits {
		// the continuation goes into every branch (a branch that ends in `return` never reaches it)
		return build(0, rest)
	}
	mut := c.mutated(nodes, whole.Pos(), whole.End())
	if len(mut) == 0 {
		return rest() // no effect
	}
	tup := tupleOf(c.varNames(mut))
	return "let " + tup + " :=\n" + ind(build(0, func() string { return tup })) + "\n" + rest()
}

// ---------------------------------------------------------------- loops

func (c *fctx) loopName() string {
	c.loops++
	return fmt.Sprintf("%s.loop%d", c.f.lean, c.loops)
}

func (c *fctx) paramDecls(vs []*types.Var) string {
	s := ""
	for _, v := range vs {
		s += " (" + c.nameOf(v) + " : " + c.t.leanType(v.Type()) + ")"
	}
	return s
}

func without(vs []*types.Var, drop []*types.Var) []*types.Var {
	var out []*types.Var
	for _, v := range vs {
		keep := true
		for _, d := range drop {
			if d == v {
				keep = false
			}
		}
		if keep {
			out = append(out, v)
		}
	}
	return out
}

func spaced(xs []string) string {
	s := ""
	for _, x := range xs {
		s += " " + x
	}
	return s
}

// for k, v := range xs { body }  — bounded: structural recursion over the elements (the index, when used, counts up from 0).
// A `return` inside the body makes the loop yield `Except.error <the function's results>`, the normal end `Except.ok <carried variables>`;
// a call that needs fuel inside the body makes it return `Option`.
func (c *fctx) rangeLoop(s *ast.RangeStmt, rest func() string) string {
	if s.Tok != token.DEFINE {
		fail("range loop without := at %s", c.t.posOf(s))
	}
	sl, ok := c.info.Types[s.X].Type.Underlying().(*types.Slice)
	if !ok {
		fail("range over %s at %s", c.info.Types[s.X].Type, c.t.posOf(s))
	}
	if hasBranch(s.Body) {
		fail("break/continue in the range loop at %s", c.t.posOf(s))
	}
	var keyVar, valVar *types.Var
	if id, ok := s.Key.(*ast.Ident); ok && id.Name != "_" {
		keyVar, _ = c.info.Defs[id].(*types.Var)
	}
	if s.Value != nil {
		if id, ok := s.Value.(*ast.Ident); ok && id.Name != "_" {
			valVar, _ = c.info.Defs[id].(*types.Var)
		}
	}
	returns, binds := hasReturn(s.Body), c.hasBind(s.Body)
	nodes := []ast.Node{s.Body}
	outer := c.mutated(nodes, s.Pos(), s.End())
	// the loop variables are copies: a store through a pointer-typed element would alias the slice
	for _, v := range []*types.Var{keyVar, valVar} {
		if v == nil {
			continue
		}
		ast.Inspect(s.Body, func(m ast.Node) bool {
			if as, ok := m.(*ast.AssignStmt); ok {
				for _, l := range as.Lhs {
					if id := rootIdent(l); id != nil && c.varOf(id) == v {
						fail("assignment to/through the range variable %s at %s", v.Name(), c.t.posOf(as))
					}
				}
			}
			return true
		})
	}
	free := without(c.freeVars(nodes, s.Pos(), s.End()), outer)
	name := c.loopName()
	freeArgs := spaced(c.varNames(free))
	names := c.varNames(outer)
	fuelDecl, fuelArg := "", ""
	if binds {
		fuelDecl, fuelArg = " (fuel : Nat)", " fuel"
	}
	keyName, valName := "", "_"
	if keyVar != nil {
		keyName = c.nameOf(keyVar)
	}
	if valVar != nil {
		valName = c.nameOf(valVar)
	}
	recurse := func() string {
		s := name + phArgs + freeArgs + fuelArg
		if keyVar != nil {
			s += " (" + keyName + " + 1)"
		}
		return s + spaced(names) + " rest'"
	}
	// result type and the two ways out
	cT := c.tupleType(outer)
	resT := cT
	done := tupleOf(names)
	if returns {
		resT = "Except " + paren(c.payloadType()) + " " + paren(cT)
		done = ".ok " + paren(done)
	}
	if binds {
		resT = "Option " + paren(resT)
		done = "some " + paren(done)
	}
	savedWrap, savedTop := c.wrap, c.top
	c.top = false
	c.wrap = func(p string) string {
		if !returns {
			fail("internal: return in a loop without returns")
		}
		if binds {
			return "some (.error " + paren(p) + ")"
		}
		return ".error " + paren(p)
	}
	body := c.block(s.Body.List, recurse)
	c.wrap, c.top = savedWrap, savedTop

	var sigTypes, pats []string
	if keyVar != nil {
		sigTypes = append(sigTypes, "Int → ")
		pats = append(pats, keyName)
	}
	for _, v := range outer {
		sigTypes = append(sigTypes, c.t.leanType(v.Type())+" → ")
	}
	pats = append(pats, names...)
	pat := strings.Join(pats, ", ")
	if pat != "" {
		pat += ", "
	}
	elemT := c.t.leanType(sl.Elem())
	hdr := c.t.srcText(forHeader{s})
	def := fmt.Sprintf("/-- Go: %s `for %s` (structural recursion over the elements%s) -/\ndef %s%s%s%s : %sList %s → %s\n  | %s[] => %s\n  | %s%s :: rest' =>\n%s\n",
		c.t.posOf(s), hdr, map[bool]string{true: "; `.error` = the function returned from inside the loop", false: ""}[returns],
		name, phParams, c.paramDecls(free), fuelDecl, strings.Join(sigTypes, ""), paren(elemT), resT,
		pat, done, pat, valName, ind(ind(body)))
	c.aux = append(c.aux, def)

	callTxt := name + phArgs + freeArgs + fuelArg
	if keyVar != nil {
		callTxt += " 0"
	}
	callTxt += spaced(names) + " " + paren(c.expr(s.X))
	tup := tupleOf(names)
	if len(outer) == 0 {
		tup = "_"
	}
	switch {
	case !returns && !binds:
		if len(outer) == 0 {
			return rest()
		}
		return "let " + tup + " := " + callTxt + "\n" + rest()
	case !returns && binds:
		r := c.fresh()
		if len(outer) == 0 {
			return "(" + callTxt + ").bind fun _ =>\n" + rest()
		}
		return "(" + callTxt + ").bind fun " + r + " =>\nlet " + tup + " := " + r + "\n" + rest()
	case returns && !binds:
		r := c.fresh()
		return "match " + callTxt + " with\n| .error " + r + " => " + c.wrap(r) + "\n| .ok " + tup + " =>\n" + ind(rest())
	default:
		r, q := c.fresh(), c.fresh()
		return "(" + callTxt + ").bind fun " + q + " =>\nmatch " + q + " with\n| .error " + r + " => " + c.wrap(r) + "\n| .ok " + tup + " =>\n" + ind(rest())
	}
}

// the text `k, v := range xs` of a range statement
type forHeader struct{ s *ast.RangeStmt }

func (h forHeader) Pos() token.Pos {
	if h.s.Key != nil {
		return h.s.Key.Pos()
	}
	return h.s.X.Pos()
}
func (h forHeader) End() token.Pos { return h.s.X.End() }
