// Command gotolean-logger translates the loggers of go-quartz
// (logger/simple_logger.go, logger/slog_logger.go, logger/logger.go) and the
// isolated job wrapper (job/isolated_job.go) from the CURRENT working tree into
// Lean 4 definitions (namespace Generated.TransLogger).
//
// The code is straight-line control flow over objects of other packages
// (*log.Logger, *slog.Logger, sync.Mutex, atomic.Bool, the wrapped quartz.Job),
// so it is translated against an explicit environment of externals
// (`structure Fmt A`: fmt's rendering of an `any` for %s / %v;
// `structure Ext W A`: Output, Enabled, Handle, Swap, Execute, threading an
// abstract world `W`); mutex operations, SetPrefix, Store, runtime.Callers are
// RECORDED as events in program order, together with every external call and
// its answer.
//
// The output is a function of the source AST: no function body is hard-coded
// here.  Hard-coded are (a) the list of functions/types to translate, (b) a
// fixed prelude, (c) the mapping of a handful of calls to externals/events and
// the idioms (strings.Builder + fmt.Fprintf with a constant format, defer of
// an event-only call, counted loop with a constant step, uses of the mutex /
// the atomic flag), each CHECKED against the source.  A failed check, or syntax
// outside the supported subset inside a listed function, puts an entry into
// `def missing : List String` (and the JSON report) and the function is
// emitted as a comment — never as a guessed body.
//
//	gotolean-logger -repo /repo -out TransLogger.lean -json trans_logger.json
package main

import (
	"crypto/sha256"
	"encoding/json"
	"flag"
	"fmt"
	"go/ast"
	"go/importer"
	"go/parser"
	"go/token"
	"go/types"
	"os"
	"path/filepath"
	"sort"
	"strings"
)

const (
	modulePath = "github.com/reugn/go-quartz"
	csmPath    = modulePath + "/internal/csm"
	loggerPath = modulePath + "/logger"
	quartzPath = modulePath + "/quartz"
	jobPath    = modulePath + "/job"
)

type pkgInfo struct {
	fset  *token.FileSet
	files []*ast.File
	info  *types.Info
	pkg   *types.Package
	dir   string
	repo  string
}

type chainImporter struct {
	known map[string]*types.Package
	next  types.Importer
}

func (c chainImporter) Import(path string) (*types.Package, error) {
	if p, ok := c.known[path]; ok {
		return p, nil
	}
	return c.next.Import(path)
}

func load(fset *token.FileSet, repo, dir, path string, known map[string]*types.Package) (*pkgInfo, error) {
	full := filepath.Join(repo, filepath.FromSlash(dir))
	pkgs, err := parser.ParseDir(fset, full, func(fi os.FileInfo) bool { return !strings.HasSuffix(fi.Name(), "_test.go") }, parser.ParseComments)
	if err != nil {
		return nil, err
	}
	var files []*ast.File
	for _, p := range pkgs {
		var names []string
		for n := range p.Files {
			names = append(names, n)
		}
		sort.Strings(names)
		for _, n := range names {
			files = append(files, p.Files[n])
		}
	}
	info := &types.Info{
		Types:      map[ast.Expr]types.TypeAndValue{},
		Uses:       map[*ast.Ident]types.Object{},
		Defs:       map[*ast.Ident]types.Object{},
		Selections: map[*ast.SelectorExpr]*types.Selection{},
		Instances:  map[*ast.Ident]types.Instance{},
	}
	conf := types.Config{
		Importer: chainImporter{known, importer.ForCompiler(fset, "source", nil)},
		Error:    func(error) {}, // tolerate what cannot be resolved offline; untyped expressions fail later, per function
	}
	pkg, _ := conf.Check(path, fset, files, info)
	return &pkgInfo{fset, files, info, pkg, full, repo}, nil
}

type jsonFn struct {
	Go   string `json:"go"`
	Lean string `json:"lean"`
	Pos  string `json:"pos"`
	Kind string `json:"kind"`
	OK   bool   `json:"translated"`
	Why  string `json:"why,omitempty"`
}

type jsonOut struct {
	Repo      string            `json:"repo"`
	Files     []string          `json:"files"`
	Functions []jsonFn          `json:"functions"`
	Idioms    map[string]string `json:"idioms"`
	Missing   []string          `json:"missing"`
	SHA256    string            `json:"sha256"`
}

func main() {
	repo := flag.String("repo", "/repo", "go-quartz working tree")
	out := flag.String("out", "TransLogger.lean", "Lean output")
	jsonPath := flag.String("json", "", "JSON report")
	flag.Parse()

	fset := token.NewFileSet()
	known := map[string]*types.Package{}
	die := func(err error) {
		fmt.Fprintln(os.Stderr, "gotolean-logger:", err)
		os.Exit(3)
	}
	if pi, err := load(fset, *repo, "internal/csm", csmPath, nil); err == nil && pi.pkg != nil {
		known[csmPath] = pi.pkg
	}
	lg, err := load(fset, *repo, "logger", loggerPath, known)
	if err != nil {
		die(err)
	}
	if lg.pkg != nil {
		known[loggerPath] = lg.pkg
	}
	if pi, err := load(fset, *repo, "quartz", quartzPath, known); err == nil && pi.pkg != nil {
		known[quartzPath] = pi.pkg
	}
	jb, err := load(fset, *repo, "job", jobPath, known)
	if err != nil {
		die(err)
	}

	t := newTranslator(lg, jb)
	text := t.run()

	if err := os.MkdirAll(filepath.Dir(*out), 0o755); err == nil {
		err = os.WriteFile(*out, []byte(text), 0o644)
	}
	if err != nil {
		die(err)
	}
	if *jsonPath != "" {
		jo := jsonOut{Repo: *repo, Files: t.sourceFiles, Functions: t.report, Idioms: t.idioms, Missing: t.missing, SHA256: fmt.Sprintf("%x", sha256.Sum256([]byte(text)))}
		if jo.Missing == nil {
			jo.Missing = []string{}
		}
		b, _ := json.MarshalIndent(jo, "", "  ")
		_ = os.WriteFile(*jsonPath, append(b, '\n'), 0o644)
	}
	fmt.Printf("gotolean-logger: %d definitions, %d missing -> %s\n", len(t.report), len(t.missing), *out)
}

// helpers shared by the other files

func (p *pkgInfo) pos(n ast.Node) string {
	ps := p.fset.Position(n.Pos())
	rel, err := filepath.Rel(p.repo, ps.Filename)
	if err != nil {
		rel = ps.Filename
	}
	return fmt.Sprintf("%s:%d", filepath.ToSlash(rel), ps.Line)
}

func recvTypeName(fd *ast.FuncDecl) string {
	if fd.Recv == nil || len(fd.Recv.List) != 1 {
		return ""
	}
	ty := fd.Recv.List[0].Type
	if s, ok := ty.(*ast.StarExpr); ok {
		ty = s.X
	}
	if id, ok := ty.(*ast.Ident); ok {
		return id.Name
	}
	return "?"
}

func (p *pkgInfo) funcDecl(recv, name string) *ast.FuncDecl {
	for _, f := range p.files {
		for _, d := range f.Decls {
			fd, ok := d.(*ast.FuncDecl)
			if !ok || fd.Name.Name != name {
				continue
			}
			if recvTypeName(fd) == recv {
				return fd
			}
		}
	}
	return nil
}

func (p *pkgInfo) typeSpec(name string) *ast.TypeSpec {
	for _, f := range p.files {
		for _, d := range f.Decls {
			gd, ok := d.(*ast.GenDecl)
			if !ok || gd.Tok != token.TYPE {
				continue
			}
			for _, s := range gd.Specs {
				if ts, ok := s.(*ast.TypeSpec); ok && ts.Name.Name == name {
					return ts
				}
			}
		}
	}
	return nil
}

func leanString(s string) string {
	var b strings.Builder
	b.WriteByte('"')
	for _, r := range s {
		switch {
		case r == '"':
			b.WriteString("\\\"")
		case r == '\\':
			b.WriteString("\\\\")
		case r == '\n':
			b.WriteString("\\n")
		case r == '\t':
			b.WriteString("\\t")
		case r < 0x20:
			fmt.Fprintf(&b, "\\x%02x", r)
		default:
			b.WriteRune(r)
		}
	}
	b.WriteByte('"')
	return b.String()
}

func ind(s string) string {
	lines := strings.Split(s, "\n")
	for i, l := range lines {
		if l != "" {
			lines[i] = "  " + l
		}
	}
	return strings.Join(lines, "\n")
}

// unalias: the module is built with go 1.21 semantics (no types.Alias nodes are produced), so this is the identity
func unalias(t types.Type) types.Type { return t }
