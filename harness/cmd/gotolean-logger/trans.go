package main

import (
	"fmt"
	"go/ast"
	"go/constant"
	"go/token"
	"go/types"
	"regexp"
	"strconv"
	"strings"
)

// ---------------------------------------------------------------------------------------------------------------
// what is translated (hard-coded list, callee before caller)

type fnSpec struct {
	pkg        string // "logger" | "job"
	recv, name string
}

var structList = []struct{ pkg, name string }{
	{"logger", "SimpleLogger"}, {"logger", "SlogLogger"}, {"logger", "NoOpLogger"}, {"job", "isolatedJob"},
}

var fnList = []fnSpec{
	{"logger", "", "formatMessage"},
	{"logger", "", "NewSimpleLogger"},
	{"logger", "SimpleLogger", "enabled"},
	{"logger", "SimpleLogger", "output"},
	{"logger", "SimpleLogger", "Trace"}, {"logger", "SimpleLogger", "Debug"}, {"logger", "SimpleLogger", "Info"},
	{"logger", "SimpleLogger", "Warn"}, {"logger", "SimpleLogger", "Error"},
	{"logger", "", "NewSlogLogger"},
	{"logger", "SlogLogger", "log"},
	{"logger", "SlogLogger", "Trace"}, {"logger", "SlogLogger", "Debug"}, {"logger", "SlogLogger", "Info"},
	{"logger", "SlogLogger", "Warn"}, {"logger", "SlogLogger", "Error"},
	{"logger", "NoOpLogger", "Trace"}, {"logger", "NoOpLogger", "Debug"}, {"logger", "NoOpLogger", "Info"},
	{"logger", "NoOpLogger", "Warn"}, {"logger", "NoOpLogger", "Error"},
	{"job", "", "NewIsolatedJob"},
	{"job", "isolatedJob", "Execute"},
}

type param struct{ name, typ string }

type fnInfo struct {
	spec      fnSpec
	pkg       *pkgInfo
	decl      *ast.FuncDecl
	lean      string
	usesF     bool // reads the rendering externals (Fmt A)
	effectful bool // takes and returns the state σ
	mayPanic  bool
	mentionsA bool
	params    []param
	results   []string
	done      bool
}

type hoist struct {
	lines  []string
	panics bool
	val    string // name bound by the `.returned` arm (panics only)
}

type kont struct {
	next func() string
	ret  func(n ast.Node, vals []string) string
	pnc  func(n ast.Node) string
}

type translator struct {
	lg, jb      *pkgInfo
	fns         map[types.Object]*fnInfo
	structs     map[*types.TypeName]bool
	defs        []string
	consts      []string
	structDefs  []string
	facts       []string
	report      []jsonFn
	idioms      map[string]string
	idiomOrder  []string
	missing     []string
	missingBy   map[string][]string // per area: "logger" | "job"
	area        string
	sourceFiles []string

	// per function
	p        *pkgInfo
	fn       *fnInfo
	failed   string
	tmp      int
	hoists   []hoist
	builders map[types.Object]bool
	loops    int
	pending  []string // loop / body definitions emitted before the function itself
}

func newTranslator(lg, jb *pkgInfo) *translator {
	return &translator{lg: lg, jb: jb, fns: map[types.Object]*fnInfo{}, structs: map[*types.TypeName]bool{}, idioms: map[string]string{}}
}

func (t *translator) pkgOf(name string) *pkgInfo {
	if name == "job" {
		return t.jb
	}
	return t.lg
}

func (t *translator) fail(n ast.Node, format string, a ...any) {
	if t.failed == "" {
		where := ""
		if n != nil && t.p != nil {
			where = t.p.pos(n) + ": "
		}
		t.failed = where + fmt.Sprintf(format, a...)
	}
}

func (t *translator) miss(s string) {
	t.missing = append(t.missing, s)
	if t.missingBy == nil {
		t.missingBy = map[string][]string{}
	}
	t.missingBy[t.area] = append(t.missingBy[t.area], s)
}

func (t *translator) idiom(name string, ok bool, msg string) {
	if _, seen := t.idioms[name]; !seen {
		t.idiomOrder = append(t.idiomOrder, name)
	}
	if ok {
		t.idioms[name] = "ok: " + msg
	} else {
		t.idioms[name] = "FAILED: " + msg
		t.miss("idiom " + name + ": " + msg)
	}
}

var leanReserved = map[string]bool{"prefix": true, "end": true, "from": true, "at": true, "open": true, "local": true, "instance": true,
	"structure": true, "theorem": true, "def": true, "fun": true, "have": true, "show": true, "then": true, "else": true, "if": true,
	"match": true, "with": true, "do": true, "let": true, "in": true, "namespace": true, "section": true, "variable": true,
	"universe": true, "import": true, "infix": true, "postfix": true, "notation": true, "macro": true, "syntax": true, "where": true,
	"deriving": true, "class": true, "inductive": true, "mutual": true, "abbrev": true, "example": true, "by": true, "calc": true,
	"extends": true, "Type": true, "Prop": true, "Sort": true, "return": true, "for": true, "unless": true, "try": true, "catch": true,
	"σ": true, "X": true, "F": true, "fuel": true, "A": true, "W": true}

var tmpName = regexp.MustCompile(`^[rv][0-9]+$`)

func (t *translator) ident(name string, n ast.Node) string {
	if tmpName.MatchString(name) {
		t.fail(n, "variable %s collides with the translator's temporaries", name)
	}
	if leanReserved[name] {
		return name + "_"
	}
	return name
}

func (t *translator) fresh() int { t.tmp++; return t.tmp }

// ---------------------------------------------------------------------------------------------------------------
// types

func isNamed(ty types.Type, pkg, name string) bool {
	ty = unalias(ty)
	n, ok := ty.(*types.Named)
	if !ok {
		return false
	}
	o := n.Obj()
	if o.Name() != name {
		return false
	}
	if o.Pkg() == nil {
		return pkg == ""
	}
	return o.Pkg().Path() == pkg
}

func isPtrTo(ty types.Type, pkg, name string) bool {
	p, ok := unalias(ty).(*types.Pointer)
	return ok && isNamed(p.Elem(), pkg, name)
}

func isEmptyInterface(ty types.Type) bool {
	i, ok := unalias(ty).Underlying().(*types.Interface)
	return ok && i.NumMethods() == 0
}

// external object kinds that are not values of the translation (the field is dropped from the structure)
func externalField(ty types.Type) (string, bool) {
	switch {
	case isNamed(ty, "sync", "Mutex"):
		return "sync.Mutex: the events `lock` / `unlock`", true
	case isNamed(ty, "sync/atomic", "Bool"):
		return "atomic.Bool: the externals `swap` and `store`", true
	}
	return "", false
}

func (t *translator) leanType(ty types.Type) (string, bool) {
	ty = unalias(ty)
	switch x := ty.(type) {
	case *types.Basic:
		switch {
		case x.Kind() == types.Uintptr:
			return "Opaque", true
		case x.Info()&types.IsInteger != 0:
			return "Int", true
		case x.Info()&types.IsString != 0:
			return "String", true
		case x.Info()&types.IsBoolean != 0:
			return "Bool", true
		}
	case *types.Named:
		switch {
		case x.Obj().Pkg() == nil && x.Obj().Name() == "error":
			return "Option Err", true
		case isNamed(x, "time", "Time"):
			return "Opaque", true
		case isNamed(x, "context", "Context"), isNamed(x, quartzPath, "Job"):
			return "Option Ref", true
		case isNamed(x, "log/slog", "Record"):
			return "Record A", true
		case isNamed(x, "strings", "Builder"):
			return "String", true
		case t.structs[x.Obj()]:
			return x.Obj().Name(), true
		}
		if _, ok := x.Underlying().(*types.Basic); ok {
			return t.leanType(x.Underlying())
		}
		if isEmptyInterface(x) {
			return "A", true
		}
	case *types.Pointer:
		if n, ok := unalias(x.Elem()).(*types.Named); ok && t.structs[n.Obj()] {
			return n.Obj().Name(), true
		}
		if isNamed(x.Elem(), "log", "Logger") || isNamed(x.Elem(), "log/slog", "Logger") {
			return "Option Ref", true
		}
	case *types.Slice:
		if isEmptyInterface(x.Elem()) {
			return "List A", true
		}
		if b, ok := unalias(x.Elem()).(*types.Basic); ok && b.Kind() == types.Uintptr {
			return "Opaque", true
		}
	case *types.Array:
		if b, ok := unalias(x.Elem()).(*types.Basic); ok && b.Kind() == types.Uintptr {
			return "Opaque", true
		}
	case *types.Interface:
		if x.NumMethods() == 0 {
			return "A", true
		}
	}
	return "", false
}

func zeroOf(lt string) string {
	switch {
	case lt == "Int":
		return "0"
	case lt == "String":
		return "\"\""
	case lt == "Bool":
		return "false"
	case strings.HasPrefix(lt, "Option "):
		return "none"
	case strings.HasPrefix(lt, "List "):
		return "[]"
	}
	return "default"
}

func parenType(s string) string {
	if strings.Contains(s, " ") {
		return "(" + s + ")"
	}
	return s
}

func paren(s string) string {
	if strings.ContainsAny(s, " \n") && !(strings.HasPrefix(s, "(") && strings.HasSuffix(s, ")") && balanced(s[1:len(s)-1])) && !(strings.HasPrefix(s, "\"") && strings.HasSuffix(s, "\"") && strings.Count(s, "\"") == 2) {
		return "(" + s + ")"
	}
	return s
}

func balanced(s string) bool {
	d := 0
	for _, r := range s {
		if r == '(' {
			d++
		} else if r == ')' {
			d--
			if d < 0 {
				return false
			}
		}
	}
	return d == 0
}

// ---------------------------------------------------------------------------------------------------------------
// calls

type callKind int

const (
	kUnknown callKind = iota
	kLen
	kPanic
	kConv
	kTranslated
	kFprintf
	kBuilderString
	kLock
	kUnlock
	kSetPrefix
	kOutput
	kEnabled
	kHandler
	kHandle
	kCallers
	kNow
	kNewRecord
	kRecordAdd
	kBackground
	kErrorsNew
	kSwap
	kStore
	kExecute
)

var externalCalls = map[string]callKind{
	"fmt.Fprintf":                   kFprintf,
	"(*strings.Builder).String":     kBuilderString,
	"(*sync.Mutex).Lock":            kLock,
	"(*sync.Mutex).Unlock":          kUnlock,
	"(*log.Logger).SetPrefix":       kSetPrefix,
	"(*log.Logger).Output":          kOutput,
	"(*log/slog.Logger).Enabled":    kEnabled,
	"(*log/slog.Logger).Handler":    kHandler,
	"(log/slog.Handler).Handle":     kHandle,
	"runtime.Callers":               kCallers,
	"time.Now":                      kNow,
	"log/slog.NewRecord":            kNewRecord,
	"(*log/slog.Record).Add":        kRecordAdd,
	"context.Background":            kBackground,
	"errors.New":                    kErrorsNew,
	"(*sync/atomic.Bool).Swap":      kSwap,
	"(*sync/atomic.Bool).Store":     kStore,
	"(" + quartzPath + ".Job).Execute": kExecute,
}

func (t *translator) calleeObj(c *ast.CallExpr) types.Object {
	switch f := c.Fun.(type) {
	case *ast.Ident:
		return t.p.info.Uses[f]
	case *ast.SelectorExpr:
		if sel, ok := t.p.info.Selections[f]; ok {
			return sel.Obj()
		}
		return t.p.info.Uses[f.Sel]
	case *ast.ParenExpr:
		return nil
	}
	return nil
}

func (t *translator) classify(c *ast.CallExpr) (callKind, *fnInfo) {
	if tv, ok := t.p.info.Types[c.Fun]; ok && tv.IsType() {
		return kConv, nil
	}
	obj := t.calleeObj(c)
	switch o := obj.(type) {
	case *types.Builtin:
		switch o.Name() {
		case "len":
			return kLen, nil
		case "panic":
			return kPanic, nil
		}
	case *types.Func:
		if fi, ok := t.fns[o]; ok {
			return kTranslated, fi
		}
		if k, ok := externalCalls[o.FullName()]; ok {
			return k, nil
		}
	}
	return kUnknown, nil
}

// scan: the effect flags of a function body (before it is translated)
func (t *translator) scan(body ast.Node) (usesF, effectful, mayPanic bool) {
	ast.Inspect(body, func(n ast.Node) bool {
		c, ok := n.(*ast.CallExpr)
		if !ok {
			return true
		}
		k, fi := t.classify(c)
		switch k {
		case kFprintf:
			usesF = true
		case kLock, kUnlock, kSetPrefix, kEnabled, kCallers, kSwap, kStore:
			effectful = true
		case kOutput, kHandle, kExecute:
			effectful, mayPanic = true, true
		case kPanic:
			mayPanic = true
		case kTranslated:
			usesF = usesF || fi.usesF
			effectful = effectful || fi.effectful
			mayPanic = mayPanic || fi.mayPanic
		}
		return true
	})
	return
}

func (t *translator) takeHoists() []hoist {
	h := t.hoists
	t.hoists = nil
	return h
}

// wrap: the hoisted calls of one statement, in evaluation order, around the code that follows
func (t *translator) wrap(n ast.Node, hs []hoist, k kont, rest string) string {
	for i := len(hs) - 1; i >= 0; i-- {
		h := hs[i]
		pre := strings.Join(h.lines, "\n")
		if h.panics {
			val := h.val
			if val == "" {
				val = "_"
			}
			rest = pre + "\n(match " + h.matchOn() + " with\n| .panicked =>\n" + ind(k.pnc(n)) + "\n| .returned " + val + " =>\n" + ind(rest) + ")"
		} else {
			rest = pre + "\n" + rest
		}
	}
	return rest
}

func (h hoist) matchOn() string {
	// the first line is `let rN := …`
	f := strings.Fields(h.lines[0])
	return f[1] + ".2"
}

func (t *translator) hdrArgs(fi *fnInfo) string {
	s := ""
	if fi.usesF {
		s += " F"
	}
	if fi.effectful {
		s += " X σ"
	}
	return s
}

// external call with state: `let rN := σ.<op> X args; let σ := rN.1`
func (t *translator) stateCall(op string, args []string, panics bool) string {
	n := t.fresh()
	r := "r" + strconv.Itoa(n)
	line := "let " + r + " := σ." + op + " X"
	for _, a := range args {
		line += " " + paren(a)
	}
	h := hoist{lines: []string{line, "let σ := " + r + ".1"}, panics: panics}
	if panics {
		h.val = "v" + strconv.Itoa(n)
		t.hoists = append(t.hoists, h)
		return h.val
	}
	t.hoists = append(t.hoists, h)
	return r + ".2"
}

func (t *translator) emitEvent(ev string) {
	t.hoists = append(t.hoists, hoist{lines: []string{"let σ := σ.emit (" + ev + ")"}})
}

func (t *translator) recvOf(c *ast.CallExpr) ast.Expr {
	if s, ok := c.Fun.(*ast.SelectorExpr); ok {
		return s.X
	}
	return nil
}

// constant expression → literal
func (t *translator) constLit(n ast.Node, v constant.Value) string {
	switch v.Kind() {
	case constant.Int:
		s := v.ExactString()
		if strings.HasPrefix(s, "-") {
			return "(" + s + ")"
		}
		return s
	case constant.String:
		return leanString(constant.StringVal(v))
	case constant.Bool:
		if constant.BoolVal(v) {
			return "true"
		}
		return "false"
	}
	t.fail(n, "constant of kind %v", v.Kind())
	return "default"
}

func (t *translator) call(c *ast.CallExpr) string {
	k, fi := t.classify(c)
	switch k {
	case kLen:
		return "(" + paren(t.expr(c.Args[0])) + ".length : Int)"
	case kConv:
		from, ok1 := t.leanType(t.p.info.TypeOf(c.Args[0]))
		to, ok2 := t.leanType(t.p.info.TypeOf(c))
		if !ok1 || !ok2 || from != to {
			t.fail(c, "conversion %s", types.ExprString(c))
		}
		return t.expr(c.Args[0])
	case kTranslated:
		if !fi.done {
			t.fail(c, "call of %s, which is not translated", fi.lean)
			return "default"
		}
		var args []string
		if recv := t.recvOf(c); recv != nil && fi.spec.recv != "" {
			args = append(args, paren(t.expr(recv)))
		}
		sig := t.p.info.TypeOf(c.Fun).(*types.Signature)
		for i, a := range c.Args {
			if sig.Variadic() && i >= sig.Params().Len()-1 {
				if !(c.Ellipsis.IsValid() && i == len(c.Args)-1) {
					t.fail(c, "variadic call without `...`")
				}
			}
			args = append(args, paren(t.expr(a)))
		}
		if sig.Variadic() && len(c.Args) < sig.Params().Len() {
			args = append(args, "[]")
		}
		text := fi.lean + t.hdrArgs(fi)
		for _, a := range args {
			text += " " + a
		}
		if !fi.effectful {
			if fi.mayPanic {
				n := t.fresh()
				h := hoist{lines: []string{"let r" + strconv.Itoa(n) + " := ((), " + text + ")"}, panics: true, val: "v" + strconv.Itoa(n)}
				t.hoists = append(t.hoists, h)
				return h.val
			}
			return text
		}
		n := t.fresh()
		r := "r" + strconv.Itoa(n)
		h := hoist{lines: []string{"let " + r + " := " + text, "let σ := " + r + ".1"}, panics: fi.mayPanic}
		if fi.mayPanic {
			h.val = "v" + strconv.Itoa(n)
			t.hoists = append(t.hoists, h)
			return h.val
		}
		t.hoists = append(t.hoists, h)
		return r + ".2"
	case kBuilderString:
		recv := t.recvOf(c)
		if id, ok := recv.(*ast.Ident); ok && t.builders[t.p.info.Uses[id]] {
			return t.ident(id.Name, id)
		}
		t.fail(c, "String() of something that is not a local strings.Builder")
	case kLock, kUnlock:
		name := map[callKind]string{kLock: "lock", kUnlock: "unlock"}[k]
		t.emitEvent("Event." + name + " " + leanString(types.ExprString(t.recvOf(c))))
		return "()"
	case kSetPrefix:
		t.emitEvent("Event.setPrefix " + paren(t.expr(t.recvOf(c))) + " " + paren(t.expr(c.Args[0])))
		return "()"
	case kStore:
		t.hoists = append(t.hoists, hoist{lines: []string{"let σ := σ.store X " + leanString(types.ExprString(t.recvOf(c))) + " " + paren(t.expr(c.Args[0]))}})
		return "()"
	case kCallers:
		if lt, ok := t.leanType(t.p.info.TypeOf(c.Args[1])); !ok || lt != "Opaque" {
			t.fail(c, "runtime.Callers into something that is not a uintptr buffer")
		}
		t.emitEvent("Event.callers " + paren(t.expr(c.Args[0])))
		return "()"
	case kOutput:
		return t.stateCall("output", []string{t.expr(t.recvOf(c)), t.expr(c.Args[0]), t.expr(c.Args[1])}, true)
	case kEnabled:
		return t.stateCall("enabled", []string{t.expr(t.recvOf(c)), t.expr(c.Args[0]), t.expr(c.Args[1])}, false)
	case kHandle:
		inner, ok := t.recvOf(c).(*ast.CallExpr)
		if ok {
			if ik, _ := t.classify(inner); ik != kHandler {
				ok = false
			}
		}
		if !ok {
			t.fail(c, "Handle on something that is not `<slog.Logger>.Handler()`")
			return "default"
		}
		return t.stateCall("handle", []string{t.expr(t.recvOf(inner)), t.expr(c.Args[0]), t.expr(c.Args[1])}, true)
	case kSwap:
		return t.stateCall("swap", []string{leanString(types.ExprString(t.recvOf(c))), t.expr(c.Args[0])}, false)
	case kExecute:
		return t.stateCall("execute", []string{t.expr(t.recvOf(c)), t.expr(c.Args[0])}, true)
	case kNow:
		return "Opaque.mk"
	case kNewRecord:
		for _, i := range []int{0, 3} {
			if lt, ok := t.leanType(t.p.info.TypeOf(c.Args[i])); !ok || lt != "Opaque" {
				t.fail(c, "slog.NewRecord: argument %d is not an opaque time / pc", i)
			}
			_ = t.expr(c.Args[i])
		}
		return "Record.new " + paren(t.expr(c.Args[1])) + " " + paren(t.expr(c.Args[2]))
	case kBackground:
		return "(some Ref.background)"
	case kErrorsNew:
		return "(some (Err.mk " + paren(t.expr(c.Args[0])) + "))"
	default:
		t.fail(c, "call %s is not translated", types.ExprString(c.Fun))
	}
	return "default"
}

// ---------------------------------------------------------------------------------------------------------------
// expressions

func isNil(p *pkgInfo, e ast.Expr) bool {
	id, ok := e.(*ast.Ident)
	if !ok {
		return false
	}
	_, isNil := p.info.Uses[id].(*types.Nil)
	return isNil
}

func (t *translator) expr(e ast.Expr) string {
	switch x := e.(type) {
	case *ast.ParenExpr:
		return t.expr(x.X)
	case *ast.BasicLit:
		if tv, ok := t.p.info.Types[x]; ok && tv.Value != nil {
			return t.constLit(x, tv.Value)
		}
	case *ast.Ident:
		switch o := t.p.info.Uses[x].(type) {
		case *types.Const:
			if o.Pkg() != nil && (o.Pkg() == t.lg.pkg || o.Pkg() == t.jb.pkg) && o.Parent() == o.Pkg().Scope() {
				return t.ident(x.Name, x)
			}
			return t.constLit(x, o.Val())
		case *types.Var:
			if o.IsField() {
				t.fail(x, "bare field %s", x.Name)
			}
			if o.Pkg() != nil && o.Parent() == o.Pkg().Scope() {
				t.fail(x, "package-level variable %s", x.Name)
			}
			return t.ident(x.Name, x)
		case *types.Nil:
			return "none"
		}
		t.fail(x, "identifier %s", x.Name)
	case *ast.SelectorExpr:
		if sel, ok := t.p.info.Selections[x]; ok {
			if sel.Kind() == types.FieldVal {
				if _, ext := externalField(sel.Type()); ext {
					t.fail(x, "external field %s used as a value", types.ExprString(x))
				}
				if len(sel.Index()) != 1 {
					t.fail(x, "promoted field %s", types.ExprString(x))
				}
				if _, ok := t.leanType(sel.Type()); !ok {
					t.fail(x, "field %s of untranslated type", types.ExprString(x))
				}
				return paren(t.expr(x.X)) + "." + t.ident(x.Sel.Name, x)
			}
			t.fail(x, "method value %s", types.ExprString(x))
			return "default"
		}
		if c, ok := t.p.info.Uses[x.Sel].(*types.Const); ok {
			// constant of another package: its value
			return "(" + strings.Trim(t.constLit(x, c.Val()), "()") + " : Int) /- " + types.ExprString(x) + " -/"
		}
		t.fail(x, "selector %s", types.ExprString(x))
	case *ast.CallExpr:
		return t.call(x)
	case *ast.UnaryExpr:
		switch x.Op {
		case token.NOT:
			return "(!" + paren(t.expr(x.X)) + ")"
		case token.SUB:
			return "(-" + paren(t.expr(x.X)) + ")"
		case token.AND:
			if cl, ok := x.X.(*ast.CompositeLit); ok {
				return t.composite(cl)
			}
		}
		t.fail(x, "unary %s", types.ExprString(x))
	case *ast.CompositeLit:
		return t.composite(x)
	case *ast.BinaryExpr:
		if x.Op == token.EQL || x.Op == token.NEQ {
			if isNil(t.p, x.Y) || isNil(t.p, x.X) {
				other := x.X
				if isNil(t.p, x.X) {
					other = x.Y
				}
				lt, ok := t.leanType(t.p.info.TypeOf(other))
				if !ok || !strings.HasPrefix(lt, "Option ") {
					t.fail(x, "nil comparison of %s", types.ExprString(other))
				}
				if x.Op == token.EQL {
					return paren(t.expr(other)) + ".isNone"
				}
				return paren(t.expr(other)) + ".isSome"
			}
		}
		lt, ok := t.leanType(t.p.info.TypeOf(x.X))
		if !ok {
			t.fail(x, "operand type of %s", types.ExprString(x))
		}
		a, b := t.expr(x.X), t.expr(x.Y)
		switch x.Op {
		case token.LAND:
			return "(" + paren(a) + " && " + paren(b) + ")"
		case token.LOR:
			return "(" + paren(a) + " || " + paren(b) + ")"
		case token.ADD:
			if lt == "String" {
				return "(" + a + " ++ " + b + ")"
			}
			if lt == "Int" {
				return "(" + a + " + " + b + ")"
			}
		case token.SUB:
			if lt == "Int" {
				return "(" + a + " - " + b + ")"
			}
		case token.LSS, token.LEQ, token.GTR, token.GEQ, token.EQL, token.NEQ:
			if lt == "Int" || ((x.Op == token.EQL || x.Op == token.NEQ) && (lt == "String" || lt == "Bool")) {
				op := map[token.Token]string{token.LSS: "<", token.LEQ: "≤", token.GTR: ">", token.GEQ: "≥", token.EQL: "=", token.NEQ: "≠"}[x.Op]
				return "decide (" + a + " " + op + " " + b + ")"
			}
		}
		t.fail(x, "binary %s on %s", x.Op, lt)
	case *ast.IndexExpr:
		lt, ok := t.leanType(t.p.info.TypeOf(x.X))
		if ok && lt == "Opaque" {
			return t.expr(x.X)
		}
		if ok && strings.HasPrefix(lt, "List ") {
			return "idx " + paren(t.expr(x.X)) + " " + paren(t.expr(x.Index))
		}
		t.fail(x, "index %s", types.ExprString(x))
	case *ast.SliceExpr:
		if lt, ok := t.leanType(t.p.info.TypeOf(x.X)); ok && lt == "Opaque" && x.Low == nil && x.High == nil {
			return t.expr(x.X)
		}
		t.fail(x, "slice %s", types.ExprString(x))
	default:
		t.fail(e, "expression %T", e)
	}
	return "default"
}

func (t *translator) composite(cl *ast.CompositeLit) string {
	n, ok := unalias(t.p.info.TypeOf(cl)).(*types.Named)
	if !ok || !t.structs[n.Obj()] {
		t.fail(cl, "composite literal of %s", types.ExprString(cl.Type))
		return "default"
	}
	var fields []string
	for _, el := range cl.Elts {
		kv, ok := el.(*ast.KeyValueExpr)
		if !ok {
			t.fail(el, "positional composite literal")
			continue
		}
		key := kv.Key.(*ast.Ident)
		if v, ok := t.p.info.Uses[key].(*types.Var); ok {
			if _, ext := externalField(v.Type()); ext {
				t.fail(kv, "composite literal initialises the external field %s", key.Name)
			}
		}
		fields = append(fields, t.ident(key.Name, key)+" := "+t.expr(kv.Value))
	}
	if len(fields) == 0 {
		return "({} : " + n.Obj().Name() + ")"
	}
	return "({ " + strings.Join(fields, ", ") + " } : " + n.Obj().Name() + ")"
}

// ---------------------------------------------------------------------------------------------------------------
// fmt.Fprintf(&b, "<constant format>", operands…) on a local strings.Builder: expanded at translation time

func (t *translator) fprintf(c *ast.CallExpr) (string, string) {
	if len(c.Args) < 2 {
		t.fail(c, "Fprintf with %d arguments", len(c.Args))
		return "b", "b"
	}
	u, ok := c.Args[0].(*ast.UnaryExpr)
	var id *ast.Ident
	if ok && u.Op == token.AND {
		id, _ = u.X.(*ast.Ident)
	}
	if id == nil || !t.builders[t.p.info.Uses[id]] {
		t.fail(c, "Fprintf into something that is not `&b` for a local strings.Builder")
		return "b", "b"
	}
	b := t.ident(id.Name, id)
	tv, ok := t.p.info.Types[c.Args[1]]
	if !ok || tv.Value == nil || tv.Value.Kind() != constant.String {
		t.fail(c, "Fprintf with a format that is not a string constant")
		return b, b
	}
	if _, lit := c.Args[1].(*ast.BasicLit); !lit {
		if _, isId := c.Args[1].(*ast.Ident); !isId {
			t.fail(c, "Fprintf format is a computed expression")
			return b, b
		}
	}
	if c.Ellipsis.IsValid() {
		t.fail(c, "Fprintf with a spread argument list")
		return b, b
	}
	format := constant.StringVal(tv.Value)
	ops := c.Args[2:]
	parts := []string{b}
	lit := ""
	flush := func() {
		if lit != "" {
			parts = append(parts, leanString(lit))
			lit = ""
		}
	}
	next := 0
	for i := 0; i < len(format); i++ {
		ch := format[i]
		if ch != '%' {
			lit += string(ch)
			continue
		}
		if i+1 >= len(format) {
			t.fail(c, "format ends with %%")
			break
		}
		i++
		verb := format[i]
		if verb == '%' {
			lit += "%"
			continue
		}
		if verb != 's' && verb != 'v' {
			t.fail(c, "format verb %%%c (only %%s and %%v are translated)", verb)
			break
		}
		if next >= len(ops) {
			t.fail(c, "format has more verbs than operands")
			break
		}
		flush()
		op := ops[next]
		next++
		lt, ok := t.leanType(t.p.info.TypeOf(op))
		switch {
		case ok && lt == "String":
			parts = append(parts, paren(t.expr(op))) // %s / %v of a string: the string itself
		case ok && lt == "A":
			fn := map[byte]string{'s': "F.fmtS", 'v': "F.fmtV"}[verb]
			parts = append(parts, fn+" "+paren(t.expr(op)))
		default:
			t.fail(op, "format operand of type %s", t.p.info.TypeOf(op))
		}
	}
	flush()
	if next != len(ops) {
		t.fail(c, "format has %d verbs for %d operands", next, len(ops))
	}
	for i := 1; i < len(parts); i++ {
		if strings.Contains(parts[i], " ") && !strings.HasPrefix(parts[i], "\"") && !strings.HasPrefix(parts[i], "(") {
			// function application binds tighter than ++ : no parentheses needed
		}
	}
	return b, strings.Join(parts, " ++ ")
}

// ---------------------------------------------------------------------------------------------------------------
// statements (continuation-passing: `k.next` is the code for what follows)

func (t *translator) block(stmts []ast.Stmt, k kont) string {
	if len(stmts) == 0 {
		return k.next()
	}
	k2 := k
	k2.next = func() string { return t.block(stmts[1:], k) }
	return t.stmt(stmts[0], k2)
}

func (t *translator) stmt(s ast.Stmt, k kont) string {
	switch x := s.(type) {
	case *ast.BlockStmt:
		return t.block(x.List, k)
	case *ast.EmptyStmt:
		return k.next()
	case *ast.ExprStmt:
		c, ok := x.X.(*ast.CallExpr)
		if !ok {
			t.fail(x, "expression statement")
			return k.next()
		}
		kind, _ := t.classify(c)
		switch kind {
		case kPanic:
			return k.pnc(c)
		case kRecordAdd:
			id, ok := t.recvOf(c).(*ast.Ident)
			if !ok || len(c.Args) != 1 || !c.Ellipsis.IsValid() {
				t.fail(c, "Record.Add not of the shape `r.Add(args...)`")
				return k.next()
			}
			r := t.ident(id.Name, id)
			arg := t.expr(c.Args[0])
			hs := t.takeHoists()
			return t.wrap(c, hs, k, "let "+r+" := "+r+".add "+paren(arg)+"\n"+k.next())
		case kFprintf:
			b, val := t.fprintf(c)
			hs := t.takeHoists()
			return t.wrap(c, hs, k, "let "+b+" := "+val+"\n"+k.next())
		}
		_ = t.expr(c)
		hs := t.takeHoists()
		return t.wrap(c, hs, k, k.next())
	case *ast.DeclStmt:
		gd, ok := x.Decl.(*ast.GenDecl)
		if !ok || gd.Tok != token.VAR {
			t.fail(x, "declaration")
			return k.next()
		}
		out := ""
		for _, sp := range gd.Specs {
			vs := sp.(*ast.ValueSpec)
			if len(vs.Values) != 0 {
				t.fail(vs, "var with initialiser")
			}
			for _, nm := range vs.Names {
				obj := t.p.info.Defs[nm]
				lt, ok := t.leanType(obj.Type())
				if !ok {
					t.fail(nm, "variable %s of type %s", nm.Name, obj.Type())
					continue
				}
				if isNamed(obj.Type(), "strings", "Builder") {
					t.builders[obj] = true
				}
				out += "let " + t.ident(nm.Name, nm) + " : " + lt + " := " + zeroOf(lt) + "\n"
			}
		}
		return out + k.next()
	case *ast.AssignStmt:
		if len(x.Rhs) != 1 {
			t.fail(x, "parallel assignment")
			return k.next()
		}
		allBlank := true
		for _, l := range x.Lhs {
			if id, ok := l.(*ast.Ident); !ok || id.Name != "_" {
				allBlank = false
			}
		}
		if allBlank {
			c, ok := x.Rhs[0].(*ast.CallExpr)
			if !ok {
				t.fail(x, "blank assignment of a non-call")
				return k.next()
			}
			return t.stmt(&ast.ExprStmt{X: c}, k)
		}
		if len(x.Lhs) != 1 || (x.Tok != token.DEFINE && x.Tok != token.ASSIGN) {
			t.fail(x, "assignment %s", x.Tok)
			return k.next()
		}
		id, ok := x.Lhs[0].(*ast.Ident)
		if !ok {
			t.fail(x, "assignment to %s", types.ExprString(x.Lhs[0]))
			return k.next()
		}
		val := t.expr(x.Rhs[0])
		hs := t.takeHoists()
		return t.wrap(x, hs, k, "let "+t.ident(id.Name, id)+" := "+val+"\n"+k.next())
	case *ast.IfStmt:
		if x.Init != nil {
			k2 := k
			k2.next = func() string { return t.ifStmt(x, k) }
			return t.stmt(x.Init, k2)
		}
		return t.ifStmt(x, k)
	case *ast.ReturnStmt:
		var vals []string
		for _, r := range x.Results {
			vals = append(vals, t.expr(r))
		}
		hs := t.takeHoists()
		return t.wrap(x, hs, k, k.ret(x, vals))
	case *ast.ForStmt:
		return t.forStmt(x, k)
	case *ast.DeferStmt:
		t.fail(x, "defer that is not a top-level statement of the function")
		return k.next()
	}
	t.fail(s, "statement %T", s)
	return k.next()
}

func (t *translator) ifStmt(x *ast.IfStmt, k kont) string {
	cond := t.expr(x.Cond)
	hs := t.takeHoists()
	thenS := t.block(x.Body.List, k)
	elseS := ""
	if x.Else != nil {
		elseS = t.stmt(x.Else, k)
	} else {
		elseS = k.next()
	}
	return t.wrap(x, hs, k, "if "+cond+" then\n"+ind(thenS)+"\nelse\n"+ind(elseS))
}

// `for i := a; i < b; i += c { pure body }`
func (t *translator) forStmt(x *ast.ForStmt, k kont) string {
	bad := func(why string) string {
		t.fail(x, "loop: %s", why)
		return k.next()
	}
	as, ok := x.Init.(*ast.AssignStmt)
	if !ok || as.Tok != token.DEFINE || len(as.Lhs) != 1 || len(as.Rhs) != 1 {
		return bad("init is not `i := a`")
	}
	iv, ok := as.Lhs[0].(*ast.Ident)
	if !ok {
		return bad("init")
	}
	iobj := t.p.info.Defs[iv]
	if lt, ok := t.leanType(iobj.Type()); !ok || lt != "Int" {
		return bad("loop variable is not an int")
	}
	cond, ok := x.Cond.(*ast.BinaryExpr)
	if !ok || (cond.Op != token.LSS && cond.Op != token.LEQ) {
		return bad("condition is not `i < b` / `i <= b`")
	}
	if ci, ok := cond.X.(*ast.Ident); !ok || t.p.info.Uses[ci] != iobj {
		return bad("condition does not test the loop variable on the left")
	}
	var boundObj types.Object
	switch bx := cond.Y.(type) {
	case *ast.Ident:
		boundObj = t.p.info.Uses[bx]
	case *ast.BasicLit:
	default:
		return bad("bound is not a variable or a literal")
	}
	step := ""
	switch px := x.Post.(type) {
	case *ast.IncDecStmt:
		if pi, ok := px.X.(*ast.Ident); ok && t.p.info.Uses[pi] == iobj && px.Tok == token.INC {
			step = "1"
		}
	case *ast.AssignStmt:
		if px.Tok == token.ADD_ASSIGN && len(px.Lhs) == 1 && len(px.Rhs) == 1 {
			if pi, ok := px.Lhs[0].(*ast.Ident); ok && t.p.info.Uses[pi] == iobj {
				if tv, ok := t.p.info.Types[px.Rhs[0]]; ok && tv.Value != nil && tv.Value.Kind() == constant.Int {
					if v, ok := constant.Int64Val(tv.Value); ok && v >= 1 {
						step = strconv.FormatInt(v, 10)
					}
				}
			}
		}
	}
	if step == "" {
		return bad("post statement is not `i++` / `i += c` with a constant c ≥ 1")
	}
	// the body: pure, no jumps; free variables split into read-only and assigned
	if u, e, p := t.scan(x.Body); e || p {
		_ = u
		return bad("body has effects")
	}
	assigned := map[types.Object]bool{}
	var order []types.Object
	seen := map[types.Object]bool{}
	jump := false
	ast.Inspect(x.Body, func(n ast.Node) bool {
		switch y := n.(type) {
		case *ast.BranchStmt, *ast.ReturnStmt, *ast.ForStmt, *ast.RangeStmt, *ast.DeferStmt, *ast.GoStmt, *ast.FuncLit, *ast.SwitchStmt, *ast.SelectStmt:
			jump = true
		case *ast.AssignStmt:
			for _, l := range y.Lhs {
				if id, ok := l.(*ast.Ident); ok && id.Name != "_" {
					if o := t.p.info.Uses[id]; o != nil {
						assigned[o] = true
					}
				}
			}
		case *ast.IncDecStmt:
			if id, ok := y.X.(*ast.Ident); ok {
				assigned[t.p.info.Uses[id]] = true
			}
		case *ast.UnaryExpr:
			if y.Op == token.AND {
				if id, ok := y.X.(*ast.Ident); ok {
					assigned[t.p.info.Uses[id]] = true
				}
			}
		}
		return true
	})
	if jump {
		return bad("body contains return / break / continue / a nested loop")
	}
	if assigned[iobj] || (boundObj != nil && assigned[boundObj]) {
		return bad("body assigns the loop variable or the bound")
	}
	collect := func(n ast.Node) {
		ast.Inspect(n, func(n ast.Node) bool {
			id, ok := n.(*ast.Ident)
			if !ok {
				return true
			}
			v, ok := t.p.info.Uses[id].(*types.Var)
			if !ok || v.IsField() || v == iobj || v.Pos() >= x.Pos() || seen[v] {
				return true
			}
			if v.Pkg() != nil && v.Parent() == v.Pkg().Scope() {
				return true
			}
			seen[v] = true
			order = append(order, v)
			return true
		})
	}
	collect(x.Cond)
	collect(x.Body)
	var ro, mut []param
	for _, o := range order {
		lt, ok := t.leanType(o.Type())
		if !ok {
			return bad("variable " + o.Name() + " of untranslated type")
		}
		p := param{t.ident(o.Name(), x), lt}
		if assigned[o] {
			mut = append(mut, p)
		} else {
			ro = append(ro, p)
		}
	}
	if len(mut) == 0 {
		return bad("body assigns nothing")
	}
	t.loops++
	name := t.fn.lean + ".loop" + strconv.Itoa(t.loops)
	i := t.ident(iv.Name, iv)
	hdr := "{A : Type} [Inhabited A]"
	call := name
	if t.fn.usesF {
		hdr += " (F : Fmt A)"
		call += " F"
	}
	for _, p := range ro {
		hdr += " (" + p.name + " : " + p.typ + ")"
		call += " " + p.name
	}
	var mt, mn []string
	for _, p := range mut {
		mt = append(mt, parenType(p.typ))
		mn = append(mn, p.name)
	}
	resT := strings.Join(mt, " × ")
	resV := strings.Join(mn, ", ")
	if len(mn) > 1 {
		resV = "(" + resV + ")"
	}
	op := map[token.Token]string{token.LSS: "<", token.LEQ: "≤"}[cond.Op]
	saveH := t.takeHoists()
	condS := "decide (" + i + " " + op + " " + t.expr(cond.Y) + ")"
	kb := kont{
		next: func() string { return call + " fuel (" + i + " + " + step + ") " + strings.Join(mn, " ") },
		ret:  func(n ast.Node, _ []string) string { t.fail(n, "return inside a loop"); return "default" },
		pnc:  func(n ast.Node) string { t.fail(n, "panic inside a loop"); return "default" },
	}
	body := t.block(x.Body.List, kb)
	if len(t.hoists) != 0 {
		t.fail(x, "loop body with hoisted calls")
	}
	t.hoists = saveH
	def := fmt.Sprintf("/-- Go: %s the loop `for %s; %s; %s` of %s.\nThe first argument bounds the number of iterations, `%s` at the call (enough: the step is ≥ 1; the loop variable is changed only by the\npost statement and the bound is not assigned in the body: checked). Further arguments: the loop variable, the variables the body assigns (%s). -/\n",
		t.p.pos(x), types.ExprString(as.Lhs[0])+" := "+types.ExprString(as.Rhs[0]), types.ExprString(x.Cond), stmtString(x.Post), t.fn.lean,
		fuelExpr(cond.Op, t.exprNoFail(cond.Y), t.exprNoFail(as.Rhs[0])), strings.Join(mn, ", "))
	def += "def " + name + " " + hdr + " : Nat → Int → " + strings.Join(mt, " → ") + " → " + resT + "\n"
	def += "  | 0, " + i + ", " + strings.Join(mn, ", ") + " => " + resV + "\n"
	def += "  | fuel + 1, " + i + ", " + strings.Join(mn, ", ") + " =>\n"
	def += "    if " + condS + " then\n" + ind(ind(ind(body))) + "\n    else\n      " + resV + "\n"
	t.pending = append(t.pending, def)

	init := t.expr(as.Rhs[0])
	bound := t.expr(cond.Y)
	hs := t.takeHoists()
	lhs := resV
	return t.wrap(x, hs, k, "let "+lhs+" := "+call+" "+fuelExpr(cond.Op, bound, init)+" "+paren(init)+" "+strings.Join(mn, " ")+"\n"+k.next())
}

func (t *translator) exprNoFail(e ast.Expr) string {
	save := t.failed
	h := t.hoists
	s := t.expr(e)
	t.failed, t.hoists = save, h
	return s
}

func fuelExpr(op token.Token, bound, init string) string {
	if op == token.LEQ {
		return "(" + bound + " + 1 - " + init + ").toNat"
	}
	return "(" + bound + " - " + init + ").toNat"
}

func stmtString(s ast.Stmt) string {
	switch x := s.(type) {
	case *ast.IncDecStmt:
		return types.ExprString(x.X) + x.Tok.String()
	case *ast.AssignStmt:
		return types.ExprString(x.Lhs[0]) + " " + x.Tok.String() + " " + types.ExprString(x.Rhs[0])
	}
	return "…"
}
