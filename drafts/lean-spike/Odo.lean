/-! Spike: generic odometer with context-dependent digits, shaped like internal/csm. -/
namespace Odo

abbrev Cfg := Nat → Nat

def set (c : Cfg) (k v : Nat) : Cfg := fun j => if j = k then v else c j

@[simp] theorem set_same (c : Cfg) (k v : Nat) : set c k v k = v := by simp [set]
theorem set_ne (c : Cfg) (k v j : Nat) (h : j ≠ k) : set c k v j = c j := by simp [set, h]

/-- A level: validity of a digit given the configuration (only higher levels may matter),
    Go-style Next (value, overflowed) and Reset. -/
structure Lvl where
  valid : Cfg → Nat → Prop
  next  : Cfg → Nat → Nat × Bool
  rst   : Cfg → Nat

/-- agreement above level k -/
def AgreeAbove (n k : Nat) (c c' : Cfg) : Prop := ∀ j, k < j → j < n → c j = c' j

structure LvlOK (n k : Nat) (l : Lvl) : Prop where
  ext_valid : ∀ c c' v, AgreeAbove n k c c' → (l.valid c v ↔ l.valid c' v)
  next_ok : ∀ c v, (l.next c v).2 = false →
      l.valid c (l.next c v).1 ∧ v < (l.next c v).1 ∧ ∀ u, l.valid c u → v < u → (l.next c v).1 ≤ u
  next_ovf : ∀ c v, (l.next c v).2 = true → ∀ u, l.valid c u → u ≤ v
  rst_ok : ∀ c, (∃ u, l.valid c u) → l.valid c (l.rst c) ∧ ∀ u, l.valid c u → l.rst c ≤ u

variable (L : Nat → Lvl)

/-- reset levels k-1, …, 0 (most significant first) -/
def resetFrom : Nat → Cfg → Cfg
  | 0, c => c
  | k+1, c => resetFrom k (set c k ((L k).rst c))

def overflowFrom (n k : Nat) (c : Cfg) : Cfg × Bool :=
  if k ≥ n then (c, true) else
    let r := (L k).next c (c k)
    let c' := set c k r.1
    if r.2 then overflowFrom n (k+1) c' else (resetFrom L k c', false)
termination_by n - k

/-- lexicographic order on the lowest n levels, most significant = n-1 -/
def Lt (n : Nat) (a b : Cfg) : Prop := ∃ k, k < n ∧ a k < b k ∧ ∀ j, k < j → j < n → a j = b j
def Le (n : Nat) (a b : Cfg) : Prop := Lt n a b ∨ ∀ j, j < n → a j = b j

def AllValid (n : Nat) (c : Cfg) : Prop := ∀ k, k < n → (L k).valid c (c k)

theorem resetFrom_above (k : Nat) (c : Cfg) : ∀ j, k ≤ j → resetFrom L k c j = c j := by
  induction k generalizing c with
  | zero => intro j _; rfl
  | succ k ih =>
    intro j hj
    simp only [resetFrom]
    rw [ih _ j (by omega), set_ne _ _ _ _ (by omega)]

/-- Lemma A: after resetFrom k, the config is ≤ every config that agrees at levels ≥ k and is
    valid on all levels < k. -/
theorem resetFrom_least (n : Nat) (hL : ∀ k, LvlOK n k (L k)) (k : Nat) (c u : Cfg)
    (hag : ∀ j, k ≤ j → j < n → u j = c j)
    (hv : ∀ i, i < k → (L i).valid u (u i)) :
    Le k (resetFrom L k c) u := by
  induction k generalizing c with
  | zero => right; intro j hj; omega
  | succ k ih =>
    simp only [resetFrom]
    -- level k: context of u and c agree above k
    have hagk : AgreeAbove n k u c := fun j hj hjn => hag j (by omega) hjn
    have hvk : (L k).valid c (u k) := ((hL k).ext_valid u c (u k) hagk).mp (hv k (by omega))
    have hr := (hL k).rst_ok c ⟨u k, hvk⟩
    have hle : (L k).rst c ≤ u k := hr.2 _ hvk
    let c' := set c k ((L k).rst c)
    by_cases heq : (L k).rst c = u k
    · -- equal at level k: recurse
      have hag' : ∀ j, k ≤ j → j < n → u j = c' j := by
        intro j hj hjn
        by_cases hjk : j = k
        · subst hjk; simp [c', heq]
        · simp only [c']; rw [set_ne _ _ _ _ hjk]; exact hag j (by omega) hjn
      have := ih c' hag' (fun i hi => hv i (by omega))
      rcases this with ⟨i, hi, hlt, hab⟩ | hall
      · left
        refine ⟨i, by omega, hlt, ?_⟩
        intro j hij hj
        by_cases hjk : j = k
        · subst hjk
          rw [resetFrom_above L _ c' _ (Nat.le_refl _)]; simp [c', heq]
        · exact hab j hij (by omega)
      · right
        intro j hj
        by_cases hjk : j = k
        · subst hjk
          rw [resetFrom_above L _ c' _ (Nat.le_refl _)]; simp [c', heq]
        · exact hall j (by omega)
    · left
      refine ⟨k, by omega, ?_, ?_⟩
      · rw [resetFrom_above L _ c' _ (Nat.le_refl _)]; simp only [c', set_same]; omega
      · intro j hkj hj; omega


/-- U is strictly greater than c, first differing at some level ≥ k -/
def LtAbove (n k : Nat) (c u : Cfg) : Prop :=
  ∃ i, k ≤ i ∧ i < n ∧ c i < u i ∧ ∀ j, i < j → j < n → c j = u j

/-- every all-valid successor of p is strictly above c on levels ≥ k -/
def Inv (n k : Nat) (p c : Cfg) : Prop :=
  ∀ u, AllValid L n u → Lt n p u → LtAbove n k c u

def LB (n : Nat) (p c : Cfg) : Prop := ∀ u, AllValid L n u → Lt n p u → Le n c u

theorem Le_of_resetFrom (n k : Nat) (hk : k < n) (c' u : Cfg)
    (hag : ∀ j, k ≤ j → j < n → u j = c' j)
    (h : Le k (resetFrom L k c') u) : Le n (resetFrom L k c') u := by
  rcases h with ⟨i, hi, hlt, hab⟩ | hall
  · left
    refine ⟨i, by omega, hlt, ?_⟩
    intro j hij hj
    by_cases hjk : j < k
    · exact hab j hij hjk
    · rw [resetFrom_above L k c' j (by omega)]; exact (hag j (by omega) hj).symm
  · right
    intro j hj
    by_cases hjk : j < k
    · exact hall j hjk
    · rw [resetFrom_above L k c' j (by omega)]; exact (hag j (by omega) hj).symm

/-- Lemma B: the carry chain. -/
theorem overflowFrom_spec (n : Nat) (hL : ∀ k, LvlOK n k (L k)) (p : Cfg) (k : Nat) (c : Cfg)
    (hinv : Inv L n k p c) :
    ((overflowFrom L n k c).2 = false → LB L n p (overflowFrom L n k c).1) ∧
    ((overflowFrom L n k c).2 = true → ∀ u, AllValid L n u → Lt n p u → False) := by
  induction hm : n - k generalizing k c with
  | zero =>
    have hk : k ≥ n := by omega
    unfold overflowFrom
    simp only [hk, if_true]
    refine ⟨(fun h => by cases h), ?_⟩
    intro _ u hu hpu
    obtain ⟨i, h1, h2, _⟩ := hinv u hu hpu
    omega
  | succ m ih =>
    have hk : ¬ k ≥ n := by omega
    unfold overflowFrom
    simp only [hk, if_false]
    by_cases hov : ((L k).next c (c k)).2 = true
    · simp only [hov, if_true]
      apply ih
      · -- Inv at k+1
        intro u hu hpu
        obtain ⟨i, h1, h2, h3, h4⟩ := hinv u hu hpu
        by_cases hik : i = k
        · subst hik
          have hag : AgreeAbove n i u c := fun j hj hjn => (h4 j hj hjn).symm
          have hv : (L i).valid c (u i) := ((hL i).ext_valid u c (u i) hag).mp (hu i h2)
          have := (hL i).next_ovf c (c i) hov (u i) hv
          omega
        · refine ⟨i, by omega, h2, ?_, ?_⟩
          · rw [set_ne _ _ _ _ hik]; exact h3
          · intro j hj hjn; rw [set_ne _ _ _ _ (by omega)]; exact h4 j hj hjn
      · omega
    · have hov' : ((L k).next c (c k)).2 = false := by
        cases h : ((L k).next c (c k)).2 <;> simp_all
      simp only [hov', Bool.false_eq_true, if_false]
      refine ⟨?_, (fun h => by cases h)⟩
      intro _ u hu hpu
      obtain ⟨hval, hgt, hleast⟩ := (hL k).next_ok c (c k) hov'
      obtain ⟨i, h1, h2, h3, h4⟩ := hinv u hu hpu
      have hkn : k < n := by omega
      by_cases hik : i = k
      · subst hik
        have hag : AgreeAbove n i u c := fun j hj hjn => (h4 j hj hjn).symm
        have hv : (L i).valid c (u i) := ((hL i).ext_valid u c (u i) hag).mp (hu i h2)
        have hle := hleast (u i) hv h3
        by_cases heq : ((L i).next c (c i)).1 = u i
        · apply Le_of_resetFrom L n i hkn
          · intro j hj hjn
            by_cases hji : j = i
            · subst hji; simp [heq]
            · rw [set_ne _ _ _ _ hji]; exact (h4 j (by omega) hjn).symm
          · apply resetFrom_least L n hL
            · intro j hj hjn
              by_cases hji : j = i
              · subst hji; simp [heq]
              · rw [set_ne _ _ _ _ hji]; exact (h4 j (by omega) hjn).symm
            · intro i' hi'; exact hu i' (by omega)
        · left
          refine ⟨i, h2, ?_, ?_⟩
          · rw [resetFrom_above L _ _ _ (Nat.le_refl _)]; simp only [set_same]; omega
          · intro j hj hjn
            rw [resetFrom_above L _ _ _ (by omega), set_ne _ _ _ _ (by omega)]; exact h4 j hj hjn
      · left
        refine ⟨i, h2, ?_, ?_⟩
        · rw [resetFrom_above L _ _ _ (by omega), set_ne _ _ _ _ hik]; exact h3
        · intro j hj hjn
          rw [resetFrom_above L _ _ _ (by omega), set_ne _ _ _ _ (by omega)]; exact h4 j hj hjn

end Odo
