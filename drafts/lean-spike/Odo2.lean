import Px.Odo
/-! Spike part 2: the validation pass, the loop, and the main theorem. -/
namespace Odo

variable (L : Nat → Lvl)

/-- decidable validity -/
structure LvlDec (l : Lvl) where
  isValid : Cfg → Nat → Bool
  ok : ∀ c v, isValid c v = true ↔ l.valid c v

variable (D : ∀ k, LvlDec (L k))

/-- scan levels m-1 … 0, advance the first invalid one (Go: advanceInvalid) -/
def advFrom (n : Nat) : Nat → Cfg → Option (Cfg × Bool)
  | 0, _ => none
  | m+1, c =>
    if (D m).isValid c (c m) then advFrom n m c else
      let r := (L m).next c (c m)
      let c' := resetFrom L m (set c m r.1)
      some (if r.2 then overflowFrom L n (m+1) c' else (c', false))

/-- Go: `for !exhausted && advanceInvalid() {}` with fuel -/
def loop (n : Nat) : Nat → Cfg → Option (Cfg × Bool)
  | 0, _ => none
  | f+1, c =>
    match advFrom L D n n c with
    | none => some (c, false)
    | some (c', true) => some (c', true)
    | some (c', false) => loop n f c'

def findForward (n fuel : Nat) (p : Cfg) : Option (Cfg × Bool) :=
  let first := match advFrom L D n n p with
    | none => overflowFrom L n 0 p
    | some r => r
  if first.2 then some first else loop L D n fuel first.1

theorem Inv_congr (n k : Nat) (p c d : Cfg) (h : ∀ j, k ≤ j → j < n → c j = d j)
    (hinv : Inv L n k p c) : Inv L n k p d := by
  intro u hu hpu
  obtain ⟨i, h1, h2, h3, h4⟩ := hinv u hu hpu
  refine ⟨i, h1, h2, ?_, ?_⟩
  · rw [← h i h1 h2]; exact h3
  · intro j hj hjn; rw [← h j (by omega) hjn]; exact h4 j hj hjn

theorem Lt_trans (n : Nat) (a b c : Cfg) (h1 : Lt n a b) (h2 : Lt n b c) : Lt n a c := by
  obtain ⟨i, hi, hlt, hag⟩ := h1
  obtain ⟨j, hj, hlt', hag'⟩ := h2
  by_cases hij : i < j
  · refine ⟨j, hj, ?_, ?_⟩
    · rw [hag j hij hj]; exact hlt'
    · intro k hk hkn; rw [hag k (by omega) hkn]; exact hag' k hk hkn
  · by_cases hji : j < i
    · refine ⟨i, hi, ?_, ?_⟩
      · rw [← hag' i hji hi]; exact hlt
      · intro k hk hkn; rw [hag k hk hkn]; exact hag' k (by omega) hkn
    · have : i = j := by omega
      subst this
      refine ⟨i, hi, by omega, ?_⟩
      intro k hk hkn; rw [hag k hk hkn]; exact hag' k hk hkn

theorem Lt_of_Lt_of_Le (n : Nat) (a b c : Cfg) (h1 : Lt n a b) (h2 : Le n b c) : Lt n a c := by
  rcases h2 with h2 | h2
  · exact Lt_trans n a b c h1 h2
  · obtain ⟨i, hi, hlt, hag⟩ := h1
    refine ⟨i, hi, by rw [← h2 i hi]; exact hlt, ?_⟩
    intro k hk hkn; rw [← h2 k hkn]; exact hag k hk hkn

theorem Lt_of_Le_of_Lt (n : Nat) (a b c : Cfg) (h1 : Le n a b) (h2 : Lt n b c) : Lt n a c := by
  rcases h1 with h1 | h1
  · exact Lt_trans n a b c h1 h2
  · obtain ⟨i, hi, hlt, hag⟩ := h2
    refine ⟨i, hi, by rw [h1 i hi]; exact hlt, ?_⟩
    intro k hk hkn; rw [h1 k hkn]; exact hag k hk hkn

/-- the carry chain strictly increases the configuration -/
theorem overflowFrom_lt (n : Nat) (hL : ∀ k, LvlOK n k (L k)) (k : Nat) (c : Cfg)
    (h : (overflowFrom L n k c).2 = false) : LtAbove n k c (overflowFrom L n k c).1 := by
  induction hm : n - k generalizing k c with
  | zero =>
    have hk : k ≥ n := by omega
    unfold overflowFrom at h
    simp [hk] at h
  | succ m ih =>
    have hk : ¬ k ≥ n := by omega
    unfold overflowFrom at h ⊢
    simp only [hk, if_false] at h ⊢
    by_cases hov : ((L k).next c (c k)).2 = true
    · simp only [hov, if_true] at h ⊢
      obtain ⟨i, h1, h2, h3, h4⟩ := ih (k+1) _ h (by omega)
      refine ⟨i, by omega, h2, ?_, ?_⟩
      · rw [set_ne _ _ _ _ (by omega)] at h3; exact h3
      · intro j hj hjn
        have := h4 j hj hjn
        rw [set_ne _ _ _ _ (by omega)] at this; exact this
    · have hov' : ((L k).next c (c k)).2 = false := by
        cases h' : ((L k).next c (c k)).2 <;> simp_all
      simp only [hov', Bool.false_eq_true, if_false]
      obtain ⟨_, hgt, _⟩ := (hL k).next_ok c (c k) hov'
      refine ⟨k, Nat.le_refl _, by omega, ?_, ?_⟩
      · rw [resetFrom_above L _ _ _ (Nat.le_refl _)]; simp only [set_same]; exact hgt
      · intro j hj hjn
        rw [resetFrom_above L _ _ _ (by omega), set_ne _ _ _ _ (by omega)]

theorem LtAbove_Lt (n k : Nat) (c u : Cfg) (h : LtAbove n k c u) : Lt n c u := by
  obtain ⟨i, _, h2, h3, h4⟩ := h
  exact ⟨i, h2, h3, h4⟩

theorem Inv_step (n : Nat) (hL : ∀ k, LvlOK n k (L k)) (p c : Cfg) (k w : Nat)
    (hinv : Inv L n k p c) (hov : ((L k).next c (c k)).2 = true) :
    Inv L n (k+1) p (set c k w) := by
  intro u hu hpu
  obtain ⟨i, h1, h2, h3, h4⟩ := hinv u hu hpu
  by_cases hik : i = k
  · subst hik
    have hag : AgreeAbove n i u c := fun j hj hjn => (h4 j hj hjn).symm
    have hv : (L i).valid c (u i) := ((hL i).ext_valid u c (u i) hag).mp (hu i h2)
    have := (hL i).next_ovf c (c i) hov (u i) hv
    omega
  · refine ⟨i, by omega, h2, ?_, ?_⟩
    · rw [set_ne _ _ _ _ hik]; exact h3
    · intro j hj hjn; rw [set_ne _ _ _ _ (by omega)]; exact h4 j hj hjn

/-- Lemma C: one validation pass. -/
theorem advFrom_spec (n : Nat) (hL : ∀ k, LvlOK n k (L k)) (p : Cfg) (m : Nat) (hm : m ≤ n)
    (c : Cfg) (hLB : LB L n p c) :
    (advFrom L D n m c = none → ∀ k, k < m → (L k).valid c (c k)) ∧
    (∀ c', advFrom L D n m c = some (c', false) → LB L n p c' ∧ Lt n c c') ∧
    (∀ c', advFrom L D n m c = some (c', true) → ∀ u, AllValid L n u → Lt n p u → False) := by
  induction m with
  | zero =>
    refine ⟨fun _ k hk => by omega, ?_, ?_⟩ <;> intro c' h <;> simp [advFrom] at h
  | succ m ih =>
    have ih := ih (by omega)
    unfold advFrom
    by_cases hv : (D m).isValid c (c m) = true
    · simp only [hv, if_true]
      refine ⟨?_, ih.2.1, ih.2.2⟩
      intro h k hk
      by_cases hkm : k = m
      · subst hkm; exact ((D k).ok c (c k)).mp hv
      · exact ih.1 h k (by omega)
    · simp only [hv]
      have hinvalid : ¬ (L m).valid c (c m) := fun h => hv (((D m).ok c (c m)).mpr h)
      -- Inv at level m
      have hinv : Inv L n m p c := by
        intro u hu hpu
        have hmn : m < n := by omega
        rcases hLB u hu hpu with ⟨i, hi, hlt, hag⟩ | hall
        · by_cases him : m ≤ i
          · exact ⟨i, him, hi, hlt, hag⟩
          · exfalso
            have hag' : AgreeAbove n m u c := fun j hj hjn => (hag j (by omega) hjn).symm
            have := ((hL m).ext_valid u c (u m) hag').mp (hu m hmn)
            rw [← hag m (by omega) hmn] at this
            exact hinvalid this
        · exfalso
          have hag' : AgreeAbove n m u c := fun j _ hjn => (hall j hjn).symm
          have := ((hL m).ext_valid u c (u m) hag').mp (hu m hmn)
          rw [← hall m hmn] at this
          exact hinvalid this
      -- relate to overflowFrom at level m
      have hspec := overflowFrom_spec L n hL p m c hinv
      have hlt := overflowFrom_lt L n hL m c
      have hmn : ¬ m ≥ n := by omega
      unfold overflowFrom at hspec hlt
      simp only [hmn, if_false] at hspec hlt
      by_cases hov : ((L m).next c (c m)).2 = true
      · simp only [hov, if_true] at hspec hlt ⊢
        -- overflow: extra reset below m does not matter
        have hagree : ∀ j, m + 1 ≤ j → j < n →
            set c m ((L m).next c (c m)).1 j = resetFrom L m (set c m ((L m).next c (c m)).1) j := by
          intro j hj _; rw [resetFrom_above L _ _ _ (by omega)]
        have hinv' : Inv L n (m+1) p (resetFrom L m (set c m ((L m).next c (c m)).1)) :=
          Inv_congr L n (m+1) p _ _ hagree (Inv_step L n hL p c m _ hinv hov)
        have hspec' := overflowFrom_spec L n hL p (m+1) _ hinv'
        have hlt' := overflowFrom_lt L n hL (m+1) (resetFrom L m (set c m ((L m).next c (c m)).1))
        refine ⟨(fun h => by cases h), ?_, ?_⟩
        · intro c' h
          have h := Option.some.inj h
          have h2 : (overflowFrom L n (m+1) (resetFrom L m (set c m ((L m).next c (c m)).1))).2 = false := by
            rw [h]
          have h1 : (overflowFrom L n (m+1) (resetFrom L m (set c m ((L m).next c (c m)).1))).1 = c' := by
            rw [h]
          refine ⟨h1 ▸ hspec'.1 h2, ?_⟩
          obtain ⟨i, hi1, hi2, hi3, hi4⟩ := hlt' h2
          rw [h1] at hi3 hi4
          refine ⟨i, hi2, ?_, ?_⟩
          · rw [resetFrom_above L _ _ _ (by omega), set_ne _ _ _ _ (by omega)] at hi3; exact hi3
          · intro j hj hjn
            have := hi4 j hj hjn
            rw [resetFrom_above L _ _ _ (by omega), set_ne _ _ _ _ (by omega)] at this; exact this
        · intro c' h
          have h := Option.some.inj h
          have h2 : (overflowFrom L n (m+1) (resetFrom L m (set c m ((L m).next c (c m)).1))).2 = true := by
            rw [h]
          exact hspec'.2 h2
      · have hov' : ((L m).next c (c m)).2 = false := by
          cases h' : ((L m).next c (c m)).2 <;> simp_all
        simp only [hov', Bool.false_eq_true, if_false] at hspec hlt ⊢
        refine ⟨(fun h => by cases h), ?_, ?_⟩
        · intro c' h
          simp only [Option.some.injEq, Prod.mk.injEq, and_true] at h
          subst h
          exact ⟨hspec.1 trivial, LtAbove_Lt n m _ _ (hlt trivial)⟩
        · intro c' h
          simp at h


theorem loop_spec (n : Nat) (hL : ∀ k, LvlOK n k (L k)) (p : Cfg) (f : Nat) (c : Cfg)
    (hLB : LB L n p c) (hlt : Lt n p c) :
    (∀ r, loop L D n f c = some (r, false) → AllValid L n r ∧ Lt n p r ∧ LB L n p r) ∧
    (∀ r, loop L D n f c = some (r, true) → ∀ u, AllValid L n u → Lt n p u → False) := by
  induction f generalizing c with
  | zero => constructor <;> intro r h <;> simp [loop] at h
  | succ f ih =>
    have hs := advFrom_spec L D n hL p n (Nat.le_refl _) c hLB
    unfold loop
    cases hadv : advFrom L D n n c with
    | none =>
      simp only
      constructor
      · intro r h
        have h := Option.some.inj h
        have hr : c = r := congrArg Prod.fst h
        subst hr
        exact ⟨fun k hk => hs.1 hadv k hk, hlt, hLB⟩
      · intro r h
        have h := Option.some.inj h
        have : false = true := congrArg Prod.snd h
        cases this
    | some res =>
      obtain ⟨c', b⟩ := res
      cases b with
      | true =>
        simp only
        constructor
        · intro r h
          have h := Option.some.inj h
          have : true = false := congrArg Prod.snd h
          cases this
        · intro r _
          exact hs.2.2 c' hadv
      | false =>
        simp only
        obtain ⟨hLB', hlt'⟩ := hs.2.1 c' hadv
        exact ih c' hLB' (Lt_trans n p c c' hlt hlt')

theorem findForward_spec (n fuel : Nat) (hL : ∀ k, LvlOK n k (L k)) (p : Cfg) :
    (∀ r, findForward L D n fuel p = some (r, false) →
        AllValid L n r ∧ Lt n p r ∧ ∀ u, AllValid L n u → Lt n p u → Le n r u) ∧
    (∀ r, findForward L D n fuel p = some (r, true) → ∀ u, AllValid L n u → Lt n p u → False) := by
  have hLB0 : LB L n p p := fun u _ hpu => Or.inl hpu
  have hInv0 : Inv L n 0 p p := fun u _ hpu => by
    obtain ⟨i, hi, hlt, hag⟩ := hpu
    exact ⟨i, Nat.zero_le _, hi, hlt, hag⟩
  have hs := advFrom_spec L D n hL p n (Nat.le_refl _) p hLB0
  have ho := overflowFrom_spec L n hL p 0 p hInv0
  have holt := overflowFrom_lt L n hL 0 p
  unfold findForward
  cases hadv : advFrom L D n n p with
  | none =>
    simp only
    cases hb : (overflowFrom L n 0 p).2 with
    | true =>
      simp only [if_true]
      constructor
      · intro r h
        have h := Option.some.inj h
        have : (overflowFrom L n 0 p).2 = false := by rw [h]
        rw [hb] at this; cases this
      · intro r _; exact ho.2 hb
    | false =>
      simp only [Bool.false_eq_true, if_false]
      exact loop_spec L D n hL p fuel _ (ho.1 hb) (LtAbove_Lt n 0 _ _ (holt hb))
  | some res =>
    obtain ⟨c', b⟩ := res
    cases b with
    | true =>
      simp only [if_true]
      constructor
      · intro r h
        have h := Option.some.inj h
        have : true = false := congrArg Prod.snd h
        cases this
      · intro r _; exact hs.2.2 c' hadv
    | false =>
      simp only [Bool.false_eq_true, if_false]
      obtain ⟨hLB', hlt'⟩ := hs.2.1 c' hadv
      exact loop_spec L D n hL p fuel c' hLB' hlt'

end Odo
