import Px.Cal
/-! Spike: day numbers are strictly monotone in lexicographic (year, month, day) order on valid dates. -/
namespace Cal

def ValidDate (y m d : Nat) : Prop := 1 ≤ m ∧ m ≤ 12 ∧ 1 ≤ d ∧ d ≤ dim y m

theorem dim_pos (y m : Nat) : 28 ≤ dim y m ∧ dim y m ≤ 31 := by
  unfold dim; split
  · split <;> omega
  · split <;> omega

/-- month offsets grow by the month length (monthLen), hence are monotone -/
theorem dbm_mono (y m k : Nat) (h1 : 1 ≤ m) (h2 : m + k ≤ 12) :
    daysBeforeMonth y m + 28 * k ≤ daysBeforeMonth y (m + k) := by
  induction k with
  | zero => simp
  | succ k ih =>
    have := ih (by omega)
    have hl := monthLen y (m + k) (by omega) (by omega)
    have hd := dim_pos y (m + k)
    have e : m + (k + 1) = m + k + 1 := by omega
    rw [e, hl]; omega

theorem dbm_next (y m m' : Nat) (h1 : 1 ≤ m) (h2 : m < m') (h3 : m' ≤ 12) :
    daysBeforeMonth y m + dim y m ≤ daysBeforeMonth y m' := by
  have hl := monthLen y m h1 (by omega)
  have := dbm_mono y (m + 1) (m' - (m + 1)) (by omega) (by omega)
  have e : m + 1 + (m' - (m + 1)) = m' := by omega
  rw [e] at this
  omega

theorem dbm_year (y m : Nat) (h1 : 1 ≤ m) (h2 : m ≤ 12) :
    daysBeforeMonth y m + dim y m ≤ (if IsLeap y then 366 else 365) := by
  have : m = 1 ∨ m = 2 ∨ m = 3 ∨ m = 4 ∨ m = 5 ∨ m = 6 ∨ m = 7 ∨ m = 8 ∨ m = 9 ∨ m = 10 ∨ m = 11 ∨ m = 12 := by omega
  by_cases hl : IsLeap y <;>
  rcases this with h | h | h | h | h | h | h | h | h | h | h | h <;> subst h <;>
    simp [daysBeforeMonth, dim, monthTable, hl]

theorem dby_mono (y k : Nat) : daysBeforeYear y + 365 * k ≤ daysBeforeYear (y + k) := by
  induction k with
  | zero => simp
  | succ k ih =>
    have hl := yearLen (y + k)
    have e : y + (k + 1) = y + k + 1 := by omega
    rw [e, hl]
    split <;> omega

theorem dby_next (y y' : Nat) (h : y < y') :
    daysBeforeYear y + (if IsLeap y then 366 else 365) ≤ daysBeforeYear y' := by
  have hl := yearLen y
  have := dby_mono (y + 1) (y' - (y + 1))
  have e : y + 1 + (y' - (y + 1)) = y' := by omega
  rw [e] at this
  omega

/-- strict monotonicity in lexicographic order -/
theorem dayNumber_lt (y m d y' m' d' : Nat) (hv : ValidDate y m d) (hv' : ValidDate y' m' d')
    (hlt : y < y' ∨ (y = y' ∧ (m < m' ∨ (m = m' ∧ d < d')))) :
    dayNumber y m d < dayNumber y' m' d' := by
  obtain ⟨h1, h2, h3, h4⟩ := hv
  obtain ⟨h1', h2', h3', h4'⟩ := hv'
  unfold dayNumber
  rcases hlt with hy | ⟨rfl, hm | ⟨rfl, hd⟩⟩
  · have a := dby_next y y' hy
    have b := dbm_year y m h1 h2
    omega
  · have a := dbm_next y m m' h1 hm h2'
    omega
  · omega

/-- and conversely: equal day numbers of valid dates are the same date (injectivity) -/
theorem dayNumber_inj (y m d y' m' d' : Nat) (hv : ValidDate y m d) (hv' : ValidDate y' m' d')
    (h : dayNumber y m d = dayNumber y' m' d') : y = y' ∧ m = m' ∧ d = d' := by
  by_cases hy : y < y'
  · have := dayNumber_lt y m d y' m' d' hv hv' (Or.inl hy); omega
  · by_cases hy' : y' < y
    · have := dayNumber_lt y' m' d' y m d hv' hv (Or.inl hy'); omega
    · have e : y = y' := by omega
      subst e
      by_cases hm : m < m'
      · have := dayNumber_lt y m d y m' d' hv hv' (Or.inr ⟨rfl, Or.inl hm⟩); omega
      · by_cases hm' : m' < m
        · have := dayNumber_lt y m' d' y m d hv' hv (Or.inr ⟨rfl, Or.inl hm'⟩); omega
        · have e : m = m' := by omega
          subst e
          refine ⟨rfl, rfl, ?_⟩
          unfold dayNumber at h; omega

/-- weekday of a date from the weekday of the 1st of its month (0 = Sunday; day 0 of the count is
    a Saturday-aligned constant fixed by validation against Go) -/
def weekday (y m d : Nat) : Nat := (dayNumber y m d + 5) % 7

theorem weekday_of_first (y m d : Nat) (hd : 1 ≤ d) :
    weekday y m d = (weekday y m 1 + d - 1) % 7 := by
  unfold weekday dayNumber; omega

end Cal
