import Px.Node
/-! Spike: DayNode weekday-set mode (nextWeekday/addDays) meets the level contract. -/
namespace Wkd
open Node

/-- weekday of day d when the 1st of the month falls on weekday w1 -/
def wd (w1 d : Nat) : Nat := (w1 + d - 1) % 7

def validDay (dim w1 : Nat) (values : List Nat) (d : Nat) : Prop :=
  1 ≤ d ∧ d ≤ dim ∧ wd w1 d ∈ values

/-- offset to the next listed weekday (Go: nextWeekday) -/
def offset (values : List Nat) (w : Nat) : Nat :=
  match values.find? (fun x => decide (w < x)) with
  | some x => x - w
  | none => 7 + values.headD 0 - w

/-- Go: addDays — overflow iff the new day leaves the month; value wraps into the next month -/
def next (dim w1 : Nat) (values : List Nat) (v : Nat) : Nat × Bool :=
  let off := offset values (wd w1 v)
  if v + off > dim then (v + off - dim, true) else (v + off, false)

theorem head_min {a : Nat} {t : List Nat} (hs : Sorted (a :: t)) : ∀ y ∈ a :: t, a ≤ y := by
  intro y hy
  cases hy with
  | head => exact Nat.le_refl _
  | tail _ h => exact sorted_head_le hs y h

/-- the offset is in 1..7, lands on a listed weekday, and skips none -/
theorem offset_spec (values : List Nat) (hne : values ≠ []) (hs : Sorted values)
    (hb : ∀ x ∈ values, x < 7) (w : Nat) (hw : w < 7) :
    1 ≤ offset values w ∧ offset values w ≤ 7 ∧ (w + offset values w) % 7 ∈ values ∧
      ∀ k, 1 ≤ k → k < offset values w → (w + k) % 7 ∉ values := by
  unfold offset
  cases values with
  | nil => exact absurd rfl hne
  | cons a t =>
    cases hf : (a :: t).find? (fun x => decide (w < x)) with
    | some x =>
      simp only
      obtain ⟨hm, hp, hleast⟩ := find_least _ _ hs x hf
      simp only [decide_eq_true_eq] at hp
      have hx7 := hb x hm
      refine ⟨by omega, by omega, ?_, ?_⟩
      · have : (w + (x - w)) % 7 = x := by
          have : w + (x - w) = x := by omega
          rw [this]; exact Nat.mod_eq_of_lt hx7
        rw [this]; exact hm
      · intro k hk1 hk2 hmem
        have hlt : w + k < 7 := by omega
        rw [Nat.mod_eq_of_lt hlt] at hmem
        have := hleast (w + k) hmem (by simp; omega)
        omega
    | none =>
      simp only [List.headD_cons]
      have hall : ∀ y ∈ a :: t, y ≤ w := by
        intro y hy
        have := List.find?_eq_none.mp hf y hy
        simp at this; exact this
      have ha7 := hb a (by simp)
      have haw := hall a (by simp)
      refine ⟨by omega, by omega, ?_, ?_⟩
      · have : (w + (7 + a - w)) % 7 = a := by
          have : w + (7 + a - w) = a + 7 := by omega
          rw [this, Nat.add_mod_right]; exact Nat.mod_eq_of_lt ha7
        rw [this]; simp
      · intro k hk1 hk2 hmem
        by_cases hlt : w + k < 7
        · rw [Nat.mod_eq_of_lt hlt] at hmem
          have := hall _ hmem; omega
        · have : (w + k) % 7 = w + k - 7 := by omega
          rw [this] at hmem
          have := head_min hs _ hmem
          omega

theorem wd_add (w1 d k : Nat) (hd : 1 ≤ d) : wd w1 (d + k) = (wd w1 d + k) % 7 := by
  unfold wd; omega

theorem next_ok (dim w1 : Nat) (values : List Nat) (hne : values ≠ []) (hs : Sorted values)
    (hb : ∀ x ∈ values, x < 7) (v : Nat) (hv : 1 ≤ v)
    (h : (next dim w1 values v).2 = false) :
    validDay dim w1 values (next dim w1 values v).1 ∧ v < (next dim w1 values v).1 ∧
      ∀ u, validDay dim w1 values u → v < u → (next dim w1 values v).1 ≤ u := by
  have hw : wd w1 v < 7 := Nat.mod_lt _ (by omega)
  obtain ⟨o1, o2, o3, o4⟩ := offset_spec values hne hs hb (wd w1 v) hw
  unfold next at h ⊢
  simp only at h ⊢
  split at h
  · cases h
  · rename_i hle
    simp only [hle, if_false]
    refine ⟨⟨by omega, by omega, ?_⟩, by omega, ?_⟩
    · rw [wd_add w1 v _ hv]; exact o3
    · intro u hu hvu
      apply Classical.byContradiction
      intro hcon
      have hk : u = v + (u - v) := by omega
      have := o4 (u - v) (by omega) (by omega)
      rw [← wd_add w1 v _ hv, ← hk] at this
      exact this hu.2.2

theorem next_ovf (dim w1 : Nat) (values : List Nat) (hne : values ≠ []) (hs : Sorted values)
    (hb : ∀ x ∈ values, x < 7) (v : Nat) (hv : 1 ≤ v)
    (h : (next dim w1 values v).2 = true) : ∀ u, validDay dim w1 values u → u ≤ v := by
  have hw : wd w1 v < 7 := Nat.mod_lt _ (by omega)
  obtain ⟨o1, o2, o3, o4⟩ := offset_spec values hne hs hb (wd w1 v) hw
  unfold next at h
  simp only at h
  split at h
  · rename_i hgt
    intro u hu
    apply Classical.byContradiction
    intro hcon
    have hk : u = v + (u - v) := by omega
    have := o4 (u - v) (by omega) (by have := hu.2.1; omega)
    rw [← wd_add w1 v _ hv, ← hk] at this
    exact this hu.2.2
  · cases h

end Wkd
