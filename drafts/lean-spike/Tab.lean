/-! Spike: finite-table lemmas for the special day rules, by kernel `decide`. -/
namespace Tab

/-- weekday of day d in a month whose 1st falls on weekday w1 (0 = Sunday) -/
def wd (w1 d : Nat) : Nat := (w1 + d - 1) % 7
def isWk (w : Nat) : Bool := w != 0 && w != 6

/-- transcription of closestWeekday: search i = 1..7, previous day first, staying in the month -/
def closest (dim w1 t : Nat) : Nat :=
  if isWk (wd w1 t) then t else
    let rec go (fuel i : Nat) : Nat :=
      match fuel with
      | 0 => t
      | f+1 =>
        if t ≥ 1 + i ∧ isWk (wd w1 (t - i)) then t - i
        else if t + i ≤ dim ∧ isWk (wd w1 (t + i)) then t + i
        else go f (i+1)
    go 7 1

/-- declarative: d is a weekday of the month and no other weekday of the month is nearer to t -/
def Nearest (dim w1 t d : Nat) : Prop :=
  1 ≤ d ∧ d ≤ dim ∧ isWk (wd w1 d) = true ∧
  ∀ e, 1 ≤ e → e ≤ dim → isWk (wd w1 e) = true → e ≠ d →
    (if d ≤ t then t - d else d - t) < (if e ≤ t then t - e else e - t)

def dist (t d : Nat) : Nat := if d ≤ t then t - d else d - t

def nearestB (dim w1 t d : Nat) : Bool :=
  decide (1 ≤ d) && decide (d ≤ dim) && isWk (wd w1 d) &&
  (List.range (dim + 1)).all fun e =>
    !(decide (1 ≤ e) && isWk (wd w1 e) && decide (e ≠ d)) || decide (dist t d < dist t e)

theorem nearestB_sound (dim w1 t d : Nat) (h : nearestB dim w1 t d = true) : Nearest dim w1 t d := by
  simp only [nearestB, Bool.and_eq_true, decide_eq_true_eq, List.all_eq_true, List.mem_range,
    Bool.or_eq_true, Bool.not_eq_true', Bool.and_eq_false_imp] at h
  obtain ⟨⟨⟨h1, h2⟩, h3⟩, h4⟩ := h
  refine ⟨h1, h2, h3, ?_⟩
  intro e he1 he2 hwk hne
  have := h4 e (by omega)
  simp only [dist] at this
  rcases this with h | h
  · have := h ⟨by simpa using he1, hwk⟩
    simp at this; exact absurd this hne
  · exact h

def tableOK : Bool :=
  (List.range 32).all fun dim => !(decide (28 ≤ dim)) ||
    (List.range 7).all fun w1 =>
      (List.range 32).all fun t => !(decide (1 ≤ t) && decide (t ≤ dim)) ||
        nearestB dim w1 t (closest dim w1 t)

theorem tableOK_true : tableOK = true := by decide +kernel

theorem closest_nearest (dim w1 t : Nat) (hd1 : 28 ≤ dim) (hd2 : dim ≤ 31) (hw : w1 < 7)
    (ht1 : 1 ≤ t) (ht2 : t ≤ dim) : Nearest dim w1 t (closest dim w1 t) := by
  have h := tableOK_true
  simp only [tableOK, List.all_eq_true, List.mem_range, Bool.or_eq_true, Bool.not_eq_true',
    decide_eq_false_iff_not, Bool.and_eq_false_imp, decide_eq_true_eq] at h
  have h1 := h dim (by omega)
  rcases h1 with h1 | h1
  · omega
  · have h2 := h1 w1 hw t (by omega)
    rcases h2 with h2 | h2
    · exact absurd ht2 (h2 ht1)
    · exact nearestB_sound _ _ _ _ h2

end Tab
