import Px.Odo
/-! Spike: CommonNode satisfies the level contract. -/
namespace Node

def pick (v hi x : Nat) : Bool := decide (v < x ∧ x ≤ hi)

theorem pick_iff (v hi x : Nat) : pick v hi x = true ↔ v < x ∧ x ≤ hi := by simp [pick]

/-- transcription of CommonNode.Next (values sorted ascending; empty = any value in [lo,hi]) -/
def next (lo hi : Nat) (values : List Nat) (v : Nat) : Nat × Bool :=
  if values.isEmpty then
    if v + 1 > hi then (lo, true) else (v + 1, false)
  else
    match values.find? (pick v hi) with
    | some x => (x, false)
    | none => (values.headD 0, true)

def valid (lo hi : Nat) (values : List Nat) (v : Nat) : Prop :=
  lo ≤ v ∧ v ≤ hi ∧ (values = [] ∨ v ∈ values)

/-- CommonNode.Reset: value := max; Next() -/
def rst (lo hi : Nat) (values : List Nat) : Nat := (next lo hi values hi).1

def Sorted : List Nat → Prop
  | [] => True
  | [_] => True
  | a :: b :: t => a ≤ b ∧ Sorted (b :: t)

theorem sorted_tail {a : Nat} {t : List Nat} (h : Sorted (a :: t)) : Sorted t := by
  cases t with
  | nil => trivial
  | cons b t => exact h.2

theorem sorted_head_le {a : Nat} {t : List Nat} (h : Sorted (a :: t)) : ∀ y ∈ t, a ≤ y := by
  induction t generalizing a with
  | nil => intro y hy; cases hy
  | cons b t ih =>
    intro y hy
    cases hy with
    | head => exact h.1
    | tail _ hy' => exact Nat.le_trans h.1 (ih h.2 y hy')

/-- in a sorted list `find?` returns the least element satisfying a predicate -/
theorem find_least (p : Nat → Bool) (l : List Nat) (hs : Sorted l) (x : Nat)
    (h : l.find? p = some x) : x ∈ l ∧ p x = true ∧ ∀ y ∈ l, p y = true → x ≤ y := by
  induction l with
  | nil => simp at h
  | cons a t ih =>
    simp only [List.find?] at h
    cases hp : p a with
    | true =>
      simp [hp] at h; subst h
      refine ⟨by simp, hp, ?_⟩
      intro y hy _
      cases hy with
      | head => exact Nat.le_refl _
      | tail _ hy' => exact sorted_head_le hs y hy'
    | false =>
      simp [hp] at h
      obtain ⟨h1, h2, h3⟩ := ih (sorted_tail hs) h
      refine ⟨by simp [h1], h2, ?_⟩
      intro y hy hpy
      cases hy with
      | head => rw [hp] at hpy; cases hpy
      | tail _ hy' => exact h3 y hy' hpy

theorem next_ok (lo hi : Nat) (values : List Nat) (hs : Sorted values)
    (hb : ∀ x ∈ values, lo ≤ x ∧ x ≤ hi) (v : Nat) (hv : lo ≤ v + 1)
    (h : (next lo hi values v).2 = false) :
    valid lo hi values (next lo hi values v).1 ∧ v < (next lo hi values v).1 ∧
      ∀ u, valid lo hi values u → v < u → (next lo hi values v).1 ≤ u := by
  unfold next at h ⊢
  cases values with
  | nil =>
    simp only [List.isEmpty_nil, if_true] at h ⊢
    split at h
    · cases h
    · rename_i hle
      simp only [hle, if_false]
      refine ⟨⟨by omega, by omega, Or.inl rfl⟩, by omega, ?_⟩
      intro u _ hu; omega
  | cons a t =>
    simp only [List.isEmpty_cons, Bool.false_eq_true, if_false] at h ⊢
    cases hf : (a :: t).find? (pick v hi) with
    | none => rw [hf] at h; cases h
    | some x =>
      simp only
      obtain ⟨hm, hp, hleast⟩ := find_least _ _ hs x hf
      rw [pick_iff] at hp
      refine ⟨⟨(hb x hm).1, hp.2, Or.inr hm⟩, hp.1, ?_⟩
      intro u hu hvu
      rcases hu with ⟨_, hu2, hu3 | hu3⟩
      · cases hu3
      · exact hleast u hu3 ((pick_iff _ _ _).mpr ⟨hvu, hu2⟩)

theorem next_ovf (lo hi : Nat) (values : List Nat) (v : Nat)
    (h : (next lo hi values v).2 = true) : ∀ u, valid lo hi values u → u ≤ v := by
  unfold next at h
  intro u hu
  cases values with
  | nil =>
    simp only [List.isEmpty_nil, if_true] at h
    split at h
    · have := hu.2.1; omega
    · cases h
  | cons a t =>
    simp only [List.isEmpty_cons, Bool.false_eq_true, if_false] at h
    cases hf : (a :: t).find? (pick v hi) with
    | some x => rw [hf] at h; cases h
    | none =>
      rcases hu with ⟨_, hu2, hu3 | hu3⟩
      · cases hu3
      · have := List.find?_eq_none.mp hf u hu3
        rw [pick_iff] at this
        omega

end Node
