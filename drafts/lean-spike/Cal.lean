namespace Cal

def IsLeap (y : Nat) : Prop := y % 4 = 0 ∧ (y % 100 ≠ 0 ∨ y % 400 = 0)
instance (y : Nat) : Decidable (IsLeap y) := by unfold IsLeap; infer_instance

def dim (y m : Nat) : Nat :=
  if m = 2 then (if IsLeap y then 29 else 28)
  else if m = 4 ∨ m = 6 ∨ m = 9 ∨ m = 11 then 30 else 31

/-- days before Jan 1 of year y, counted from year 0 (proleptic Gregorian) -/
def daysBeforeYear (y : Nat) : Nat :=
  365 * y + (y + 3) / 4 - (y + 99) / 100 + (y + 399) / 400

def monthTable (m : Nat) : Nat :=
  match m with
    | 1 => 0 | 2 => 31 | 3 => 59 | 4 => 90 | 5 => 120 | 6 => 151
    | 7 => 181 | 8 => 212 | 9 => 243 | 10 => 273 | 11 => 304 | 12 => 334 | _ => 0

def daysBeforeMonth (y m : Nat) : Nat :=
  if 2 < m ∧ IsLeap y then monthTable m + 1 else monthTable m

def dayNumber (y m d : Nat) : Nat := daysBeforeYear y + daysBeforeMonth y m + d

theorem step4 (y : Nat) : (y + 1 + 3) / 4 = (y + 3) / 4 + (if y % 4 = 0 then 1 else 0) := by
  split <;> omega
theorem step100 (y : Nat) : (y + 1 + 99) / 100 = (y + 99) / 100 + (if y % 100 = 0 then 1 else 0) := by
  split <;> omega
theorem step400 (y : Nat) : (y + 1 + 399) / 400 = (y + 399) / 400 + (if y % 400 = 0 then 1 else 0) := by
  split <;> omega

theorem le4 (y : Nat) : (y + 99) / 100 ≤ (y + 3) / 4 := by omega

theorem yearLen (y : Nat) :
    daysBeforeYear (y + 1) = daysBeforeYear y + (if IsLeap y then 366 else 365) := by
  unfold daysBeforeYear
  rw [step4, step100, step400]
  have l1 := le4 y
  have m1 : y % 400 = 0 → y % 100 = 0 := by omega
  have m2 : y % 100 = 0 → y % 4 = 0 := by omega
  unfold IsLeap
  by_cases h4 : y % 4 = 0 <;> by_cases h100 : y % 100 = 0 <;> by_cases h400 : y % 400 = 0 <;>
    simp_all <;> omega

theorem monthLen (y m : Nat) (h1 : 1 ≤ m) (h2 : m < 12) :
    daysBeforeMonth y (m + 1) = daysBeforeMonth y m + dim y m := by
  have : m = 1 ∨ m = 2 ∨ m = 3 ∨ m = 4 ∨ m = 5 ∨ m = 6 ∨ m = 7 ∨ m = 8 ∨ m = 9 ∨ m = 10 ∨ m = 11 := by omega
  by_cases hl : IsLeap y <;>
  rcases this with h | h | h | h | h | h | h | h | h | h | h <;> subst h <;>
    simp [daysBeforeMonth, dim, monthTable, hl]

end Cal
