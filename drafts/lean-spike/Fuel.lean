import Px.Odo2
/-! Spike: the loop never runs out of fuel (so no theorem needs to mention fuel). -/
namespace Odo

variable (L : Nat → Lvl) (D : ∀ k, LvlDec (L k))

/-- digit bounds: every level's outputs are ≤ B k -/
structure LvlBound (B : Nat → Nat) (k : Nat) (l : Lvl) : Prop where
  next_le : ∀ c v, (l.next c v).1 ≤ B k
  rst_le : ∀ c, l.rst c ≤ B k

def InBox (B : Nat → Nat) (n : Nat) (c : Cfg) : Prop := ∀ k, k < n → c k ≤ B k

theorem InBox_set (B : Nat → Nat) (n : Nat) (c : Cfg) (k v : Nat) (h : InBox B n c) (hv : v ≤ B k) :
    InBox B n (set c k v) := by
  intro j hj
  by_cases hjk : j = k
  · subst hjk; simp [hv]
  · rw [set_ne _ _ _ _ hjk]; exact h j hj

theorem InBox_resetFrom (B : Nat → Nat) (n : Nat) (hB : ∀ k, LvlBound B k (L k)) (k : Nat) (c : Cfg)
    (h : InBox B n c) : InBox B n (resetFrom L k c) := by
  induction k generalizing c with
  | zero => exact h
  | succ k ih => exact ih _ (InBox_set B n c k _ h ((hB k).rst_le c))

theorem InBox_overflowFrom (B : Nat → Nat) (n : Nat) (hB : ∀ k, LvlBound B k (L k)) (k : Nat) (c : Cfg)
    (h : InBox B n c) : InBox B n (overflowFrom L n k c).1 := by
  induction hm : n - k generalizing k c with
  | zero =>
    have hk : k ≥ n := by omega
    unfold overflowFrom; simp [hk]; exact h
  | succ m ih =>
    have hk : ¬ k ≥ n := by omega
    unfold overflowFrom
    simp only [hk, if_false]
    have hset := InBox_set B n c k _ h ((hB k).next_le c (c k))
    split
    · exact ih (k+1) _ hset (by omega)
    · exact InBox_resetFrom L B n hB k _ hset

theorem InBox_advFrom (B : Nat → Nat) (n : Nat) (hB : ∀ k, LvlBound B k (L k)) (m : Nat) (c : Cfg)
    (h : InBox B n c) : ∀ r, advFrom L D n m c = some r → InBox B n r.1 := by
  induction m with
  | zero => intro r hr; simp [advFrom] at hr
  | succ m ih =>
    intro r hr
    unfold advFrom at hr
    split at hr
    · exact ih r hr
    · have hr := Option.some.inj hr
      have hset := InBox_set B n c m _ h ((hB m).next_le c (c m))
      have hrs := InBox_resetFrom L B n hB m _ hset
      rw [← hr]
      split
      · exact InBox_overflowFrom L B n hB (m+1) _ hrs
      · exact hrs

/-- a measure that is strictly monotone for `Lt` inside the box, bounded by `M` -/
structure Measure (B : Nat → Nat) (n : Nat) (μ : Cfg → Nat) (M : Nat) : Prop where
  mono : ∀ c c', InBox B n c → InBox B n c' → Lt n c c' → μ c < μ c'
  le : ∀ c, InBox B n c → μ c ≤ M

theorem loop_fuel (B : Nat → Nat) (n : Nat) (hL : ∀ k, LvlOK n k (L k)) (hB : ∀ k, LvlBound B k (L k))
    (μ : Cfg → Nat) (M : Nat) (hμ : Measure B n μ M) (p : Cfg) (f : Nat) (c : Cfg)
    (hbox : InBox B n c) (hLB : LB L n p c) (hf : M - μ c < f) :
    loop L D n f c ≠ none := by
  induction f generalizing c with
  | zero => omega
  | succ f ih =>
    unfold loop
    have hs := advFrom_spec L D n hL p n (Nat.le_refl _) c hLB
    cases hadv : advFrom L D n n c with
    | none => simp
    | some res =>
      obtain ⟨c', b⟩ := res
      cases b with
      | true => simp
      | false =>
        simp only
        obtain ⟨hLB', hlt'⟩ := hs.2.1 c' hadv
        have hbox' : InBox B n c' := InBox_advFrom L D B n hB n c hbox (c', false) hadv
        have h1 := hμ.mono c c' hbox hbox' hlt'
        have h2 := hμ.le c' hbox'
        exact ih c' hbox' hLB' (by omega)

/-- concrete measure for six levels: mixed radix -/
def μ6 (c : Cfg) : Nat :=
  ((((c 5 * 13 + c 4) * 32 + c 3) * 24 + c 2) * 60 + c 1) * 60 + c 0

def B6 : Nat → Nat
  | 0 => 59 | 1 => 59 | 2 => 23 | 3 => 31 | 4 => 12 | 5 => 2262 | _ => 0

theorem μ6_measure : Measure B6 6 μ6 (((((2262 * 13 + 12) * 32 + 31) * 24 + 23) * 60 + 59) * 60 + 59) := by
  constructor
  · intro c c' h h' hlt
    obtain ⟨k, hk, hlt, hag⟩ := hlt
    have b0 := h 0 (by omega); have b1 := h 1 (by omega); have b2 := h 2 (by omega)
    have b3 := h 3 (by omega); have b4 := h 4 (by omega); have b5 := h 5 (by omega)
    have b0' := h' 0 (by omega); have b1' := h' 1 (by omega); have b2' := h' 2 (by omega)
    have b3' := h' 3 (by omega); have b4' := h' 4 (by omega); have b5' := h' 5 (by omega)
    simp only [B6] at *
    unfold μ6
    have hk6 : k = 0 ∨ k = 1 ∨ k = 2 ∨ k = 3 ∨ k = 4 ∨ k = 5 := by omega
    rcases hk6 with rfl | rfl | rfl | rfl | rfl | rfl
    · have e1 := hag 1 (by omega) (by omega); have e2 := hag 2 (by omega) (by omega)
      have e3 := hag 3 (by omega) (by omega); have e4 := hag 4 (by omega) (by omega)
      have e5 := hag 5 (by omega) (by omega)
      omega
    · have e2 := hag 2 (by omega) (by omega)
      have e3 := hag 3 (by omega) (by omega); have e4 := hag 4 (by omega) (by omega)
      have e5 := hag 5 (by omega) (by omega)
      omega
    · have e3 := hag 3 (by omega) (by omega); have e4 := hag 4 (by omega) (by omega)
      have e5 := hag 5 (by omega) (by omega)
      omega
    · have e4 := hag 4 (by omega) (by omega)
      have e5 := hag 5 (by omega) (by omega)
      omega
    · have e5 := hag 5 (by omega) (by omega)
      omega
    · omega
  · intro c h
    have b0 := h 0 (by omega); have b1 := h 1 (by omega); have b2 := h 2 (by omega)
    have b3 := h 3 (by omega); have b4 := h 4 (by omega); have b5 := h 5 (by omega)
    simp only [B6] at *
    unfold μ6
    omega

end Odo
