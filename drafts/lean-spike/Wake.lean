/-! Spike: lost-wake-up invariant for the loop/API interleaving (C05). -/
namespace Wake

/-- what the loop arms its timer with, given the head it saw -/
abbrev Head := Option Nat   -- earliest due time; none = empty queue

inductive Pc
  | top                       -- about to read Size
  | sized (nonEmpty : Bool)   -- Size read
  | armed (d : Head)          -- timer armed from the head it saw (none = max duration)
  | stepping                  -- inside fetchAndReschedule (holds the API lock)
deriving DecidableEq

structure Cfg where
  cap : Nat                -- interrupt channel capacity
  apiResets : Bool         -- API mutators call Reset() after the mutation
  stepResets : Bool        -- the loop's own push-back calls Reset()

structure St where
  head : Head
  token : Nat
  pc : Pc
  lockApi : Bool           -- an API call holds the queue locker and has mutated, send pending
  dirty : Bool             -- ghost: queue changed since the loop last passed `top`

inductive Act
  | loopSize | loopHead | loopWakeToken | loopTimer | loopStepDone (h : Head)
  | apiMutate (h : Head) | apiSend

def send (c : Cfg) (s : St) : St := if s.token < c.cap then { s with token := s.token + 1 } else s

def step (c : Cfg) (s : St) : Act → Option St
  | .loopSize => match s.pc with
      | .top => some { s with pc := .sized s.head.isSome, dirty := false }
      | _ => none
  | .loopHead => match s.pc with
      | .sized true => some { s with pc := .armed s.head }     -- Head(); empty now ⇒ zero duration, modelled as none-with-tick below
      | .sized false => some { s with pc := .armed none }
      | _ => none
  | .loopWakeToken => match s.pc with
      | .armed _ => if s.token > 0 then some { s with token := s.token - 1, pc := .top } else none
      | _ => none
  | .loopTimer => match s.pc with      -- timer fires (possibly stale / spurious): take the lock if free
      | .armed _ => if s.lockApi then none else some { s with pc := .stepping }
      | _ => none
  | .loopStepDone h => match s.pc with
      | .stepping =>
          let s' := { s with head := h, dirty := true, pc := .top }
          some (if c.stepResets then send c s' else s')
      | _ => none
  | .apiMutate h => if s.lockApi ∨ s.pc = .stepping then none
      else some { s with head := h, dirty := true, lockApi := true }
  | .apiSend => if s.lockApi then
        let s' := { s with lockApi := false }
        some (if c.apiResets then send c s' else s')
      else none

def init (h : Head) : St := { head := h, token := 0, pc := .top, lockApi := false, dirty := false }

def run (c : Cfg) (s : St) : List Act → Option St
  | [] => some s
  | a :: as => (step c s a).bind (fun s' => run c s' as)

def WF (c : Cfg) : Prop := c.cap ≥ 1 ∧ c.apiResets = true ∧ c.stepResets = true

/-- the inductive invariant -/
def Inv (s : St) : Prop :=
  (s.dirty = true → s.token > 0 ∨ s.lockApi = true ∨ s.pc = .top) ∧
  (∀ b, s.pc = .sized b → s.dirty = false → b = s.head.isSome) ∧
  (∀ d, s.pc = .armed d → s.dirty = false → d = s.head)

theorem inv_init (h : Head) : Inv (init h) := by
  simp [Inv, init]

theorem inv_step (c : Cfg) (hc : WF c) (s s' : St) (a : Act) (hi : Inv s)
    (hs : step c s a = some s') : Inv s' := by
  obtain ⟨hcap, hr1, hr2⟩ := hc
  obtain ⟨i1, i2, i3⟩ := hi
  cases a <;> simp only [step] at hs
  case loopSize =>
    split at hs <;> simp at hs
    subst hs; simp [Inv]
  case loopHead =>
    split at hs <;> simp at hs
    · subst hs
      refine ⟨?_, by simp, ?_⟩
      · intro hd; have := i1 hd; simp_all
      · intro d hd hdirty; simp at hd; simp_all
    · subst hs
      refine ⟨?_, by simp, ?_⟩
      · intro hd; have := i1 hd; simp_all
      · intro d hd hdirty
        simp at hd
        have := i2 false (by assumption) hdirty
        cases hh : s.head <;> simp_all
  case loopWakeToken =>
    split at hs <;> simp at hs
    obtain ⟨_, hs⟩ := hs
    subst hs; simp [Inv]
  case loopTimer =>
    split at hs <;> simp at hs
    obtain ⟨hl, hs⟩ := hs
    subst hs
    refine ⟨?_, by simp, by simp⟩
    intro hd
    have := i1 hd
    simp_all
  case loopStepDone h =>
    split at hs <;> simp at hs
    subst hs
    simp only [hr2, if_true, send]
    split <;> simp [Inv]
  case apiMutate h =>
    split at hs <;> simp at hs
    subst hs
    simp [Inv]
  case apiSend =>
    split at hs <;> simp at hs
    subst hs
    simp only [hr1, if_true, send]
    split
    · refine ⟨by simp, ?_, ?_⟩
      · intro b hb hd; exact i2 b hb hd
      · intro d hb hd; exact i3 d hb hd
    · rename_i hfull
      refine ⟨?_, ?_, ?_⟩
      · intro _; left; simp at hfull ⊢; omega
      · intro b hb hd; exact i2 b hb hd
      · intro d hb hd; exact i3 d hb hd

theorem inv_run (c : Cfg) (hc : WF c) (s : St) (as : List Act) (hi : Inv s) :
    ∀ s', run c s as = some s' → Inv s' := by
  induction as generalizing s with
  | nil => intro s' h; simp [run] at h; subst h; exact hi
  | cons a as ih =>
    intro s' h
    simp only [run] at h
    cases hst : step c s a with
    | none => simp [hst] at h
    | some s1 =>
      simp [hst] at h
      exact ih s1 (inv_step c hc s s1 a hi hst) s' h

/-- C05 core: parked on the timer with no pending token and no API call in flight ⇒ the armed
    deadline is the current head. -/
theorem parked_correct (c : Cfg) (hc : WF c) (h0 : Head) (as : List Act) (s : St)
    (hr : run c (init h0) as = some s) (d : Head) (hpc : s.pc = .armed d)
    (htok : s.token = 0) (hapi : s.lockApi = false) : d = s.head := by
  obtain ⟨i1, _, i3⟩ := inv_run c hc (init h0) as (inv_init h0) s hr
  apply i3 d hpc
  cases hd : s.dirty
  · rfl
  · have := i1 hd
    simp_all

end Wake
