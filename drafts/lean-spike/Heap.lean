/-! Spike: container/heap `up` preserves the heap invariant (Array model). -/
namespace HeapSpike

abbrev Arr := Array Int

def get (a : Arr) (i : Nat) : Int := a.getD i 0

def swp (a : Arr) (i j : Nat) : Arr :=
  if h : i < a.size ∧ j < a.size then a.swap i j h.1 h.2 else a

theorem size_swp (a : Arr) (i j : Nat) : (swp a i j).size = a.size := by
  unfold swp; split <;> simp

theorem get_swp (a : Arr) (i j k : Nat) (hi : i < a.size) (hj : j < a.size) :
    get (swp a i j) k = if k = i then get a j else if k = j then get a i else get a k := by
  unfold swp get
  simp only [hi, hj, and_self, dite_true]
  by_cases hk : k < a.size
  · simp only [Array.getD_eq_getD_getElem?, Array.getElem?_swap]
    by_cases h1 : k = i
    · subst h1
      by_cases h3 : j = k
      · subst h3; simp [hk]
      · simp [hj, h3]
    · by_cases h2 : k = j
      · subst h2; simp [hi, h1]
      · simp [h1, h2, Ne.symm h1, Ne.symm h2]
  · have h1 : k ≠ i := by omega
    have h2 : k ≠ j := by omega
    simp [Array.getD_eq_getD_getElem?, Array.getElem?_swap, h1, h2, Ne.symm h1, Ne.symm h2]

/-- Go: for { i := (j-1)/2; if i == j || !less(j,i) {break}; swap(i,j); j = i } -/
def up (a : Arr) (j : Nat) : Arr :=
  if h : j = 0 then a else
    let i := (j - 1) / 2
    if get a j < get a i then up (swp a i j) i else a
termination_by j
decreasing_by omega

def IsHeap (a : Arr) : Prop := ∀ k, 0 < k → k < a.size → get a ((k - 1) / 2) ≤ get a k

/-- heap everywhere except at the edge above j; j's children dominate j's parent -/
def UpInv (a : Arr) (j : Nat) : Prop :=
  (∀ k, 0 < k → k < a.size → k ≠ j → get a ((k - 1) / 2) ≤ get a k) ∧
  (∀ c, 0 < c → c < a.size → (c - 1) / 2 = j → 0 < j → get a ((j - 1) / 2) ≤ get a c)

theorem up_size (a : Arr) (j : Nat) : (up a j).size = a.size := by
  induction j using Nat.strongRecOn generalizing a with
  | _ j ih =>
    unfold up
    split
    · rfl
    · simp only
      split
      · rw [ih _ (by omega), size_swp]
      · rfl

theorem up_heap (a : Arr) (j : Nat) (hj : j < a.size) (h : UpInv a j) : IsHeap (up a j) := by
  induction j using Nat.strongRecOn generalizing a with
  | _ j ih =>
    unfold up
    split
    · rename_i h0
      subst h0
      intro k hk hks
      exact h.1 k hk hks (by omega)
    · rename_i h0
      simp only
      split
      · rename_i hlt
        have hi : (j - 1) / 2 < a.size := by omega
        apply ih ((j - 1) / 2) (by omega) _ (by rw [size_swp]; exact hi)
        constructor
        · intro k hk hks hki
          rw [size_swp] at hks
          rw [get_swp a _ _ _ hi hj, get_swp a _ _ _ hi hj]
          by_cases hkj : k = j
          · subst hkj
            simp only [if_true, hki, if_false]
            omega
          · simp only [hki, hkj, if_false]
            by_cases hp : (k - 1) / 2 = (j - 1) / 2
            · -- sibling of j
              simp only [hp, if_true]
              have := h.1 k hk hks hkj
              rw [hp] at this; omega
            · by_cases hp2 : (k - 1) / 2 = j
              · have hjne : j ≠ (j - 1) / 2 := by omega
                simp only [hp2, hjne, if_false, if_true]
                exact h.2 k hk hks hp2 (by omega)
              · simp only [hp, hp2, if_false]
                exact h.1 k hk hks hkj
        · intro c hc hcs hcp hpos
          rw [size_swp] at hcs
          rw [get_swp a _ _ _ hi hj, get_swp a _ _ _ hi hj]
          have hpi : 0 < (j - 1) / 2 := hpos
          have hne1 : ((j - 1) / 2 - 1) / 2 ≠ (j - 1) / 2 := by omega
          have hne2 : ((j - 1) / 2 - 1) / 2 ≠ j := by omega
          simp only [hne1, hne2, if_false]
          have hgp := h.1 ((j - 1) / 2) hpi hi (by omega)
          by_cases hcj : c = j
          · subst hcj
            have : c ≠ (c - 1) / 2 := by omega
            simp only [this, if_false, if_true]
            exact hgp
          · have hci : c ≠ (j - 1) / 2 := by omega
            simp only [hci, hcj, if_false]
            have := h.1 c hc hcs hcj
            rw [hcp] at this
            omega
      · rename_i hge
        intro k hk hks
        by_cases hkj : k = j
        · subst hkj; omega
        · exact h.1 k hk hks hkj

end HeapSpike
