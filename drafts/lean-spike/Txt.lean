/-! Spike: text-level lemmas needed by the parser model. -/
namespace Txt

def isDigit (c : Char) : Bool := '0' ≤ c && c ≤ '9'
def digitVal (c : Char) : Nat := c.toNat - '0'.toNat

/-- digits accumulated left to right; `none` on a non-digit -/
def parseDigits : List Char → Nat → Option Nat
  | [], acc => some acc
  | c :: cs, acc => if isDigit c then parseDigits cs (acc * 10 + digitVal c) else none

/-- model of strconv.Atoi restricted to unsigned input, without the int64 cap -/
def atoiNat (s : List Char) : Option Nat :=
  match s with
  | [] => none
  | _ => parseDigits s 0

def digitChar (d : Nat) : Char := Char.ofNat (d + 48)

/-- decimal rendering, most significant first -/
def render (n : Nat) : List Char :=
  if h : n < 10 then [digitChar n] else render (n / 10) ++ [digitChar (n % 10)]
termination_by n
decreasing_by omega

theorem isDigit_digitChar (d : Nat) (h : d < 10) : isDigit (digitChar d) = true := by
  have : d = 0 ∨ d = 1 ∨ d = 2 ∨ d = 3 ∨ d = 4 ∨ d = 5 ∨ d = 6 ∨ d = 7 ∨ d = 8 ∨ d = 9 := by omega
  rcases this with h | h | h | h | h | h | h | h | h | h <;> subst h <;> decide

theorem digitVal_digitChar (d : Nat) (h : d < 10) : digitVal (digitChar d) = d := by
  have : d = 0 ∨ d = 1 ∨ d = 2 ∨ d = 3 ∨ d = 4 ∨ d = 5 ∨ d = 6 ∨ d = 7 ∨ d = 8 ∨ d = 9 := by omega
  rcases this with h | h | h | h | h | h | h | h | h | h <;> subst h <;> decide

theorem parseDigits_append (a b : List Char) (acc : Nat) :
    parseDigits (a ++ b) acc = (parseDigits a acc).bind (parseDigits b) := by
  induction a generalizing acc with
  | nil => simp [parseDigits]
  | cons c cs ih =>
    simp only [List.cons_append, parseDigits]
    split
    · exact ih _
    · rfl

theorem parseDigits_render (n acc : Nat) :
    parseDigits (render n) acc = some (acc * 10 ^ (render n).length + n) := by
  induction n using Nat.strongRecOn generalizing acc with
  | _ n ih =>
    unfold render
    split
    · rename_i h
      simp [parseDigits, isDigit_digitChar n h, digitVal_digitChar n h]
    · rename_i h
      rw [parseDigits_append, ih (n / 10) (by omega)]
      simp only [Option.bind_some, parseDigits, isDigit_digitChar _ (Nat.mod_lt n (by omega)),
        digitVal_digitChar _ (Nat.mod_lt n (by omega)), if_true, List.length_append,
        List.length_singleton, Nat.pow_succ]
      congr 1
      have := Nat.div_add_mod n 10
      rw [Nat.add_mul, Nat.mul_assoc]
      omega

theorem render_ne_nil (n : Nat) : render n ≠ [] := by
  unfold render; split <;> simp

theorem atoi_render (n : Nat) : atoiNat (render n) = some n := by
  unfold atoiNat
  have h := parseDigits_render n 0
  cases hr : render n with
  | nil => exact absurd hr (render_ne_nil n)
  | cons c cs => rw [hr] at h; simpa using h

end Txt

namespace Txt

/-- strings.Split for a one-character separator -/
def splitAux (sep : Char) : List Char → List Char → List (List Char)
  | [], cur => [cur.reverse]
  | c :: cs, cur => if c = sep then cur.reverse :: splitAux sep cs [] else splitAux sep cs (c :: cur)

def split (sep : Char) (s : List Char) : List (List Char) := splitAux sep s []

def join (sep : Char) : List (List Char) → List Char
  | [] => []
  | [p] => p
  | p :: q :: ps => p ++ sep :: join sep (q :: ps)

theorem splitAux_noSep (sep : Char) (p rest cur : List Char) (hp : ∀ c ∈ p, c ≠ sep) :
    splitAux sep (p ++ rest) cur = splitAux sep rest (p.reverse ++ cur) := by
  induction p generalizing cur with
  | nil => simp
  | cons c cs ih =>
    have hc : c ≠ sep := hp c (by simp)
    simp only [List.cons_append, splitAux, hc, if_false]
    rw [ih _ (fun d hd => hp d (by simp [hd]))]
    simp

theorem split_join (sep : Char) (ps : List (List Char)) (hne : ps ≠ [])
    (hp : ∀ p ∈ ps, ∀ c ∈ p, c ≠ sep) : split sep (join sep ps) = ps := by
  unfold split
  induction ps with
  | nil => exact absurd rfl hne
  | cons p rest ih =>
    cases rest with
    | nil =>
      simp only [join]
      have := splitAux_noSep sep p [] [] (hp p (by simp))
      simp only [List.append_nil] at this
      rw [this]; simp [splitAux]
    | cons q qs =>
      simp only [join]
      rw [splitAux_noSep sep p _ [] (hp p (by simp))]
      simp only [splitAux, if_true, List.append_nil, List.reverse_reverse]
      congr 1
      exact ih (by simp) (fun r hr => hp r (by simp [hr]))

end Txt
