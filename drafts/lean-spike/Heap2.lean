import Px.Heap
/-! Spike: container/heap `down` on a prefix, and the invariants needed for Pop/Remove. -/
namespace HeapSpike

/-- the smaller child of i inside the prefix [0,n) (left one on ties), given 2i+1 < n -/
def child (a : Arr) (i n : Nat) : Nat :=
  if 2 * i + 2 < n ∧ get a (2 * i + 2) < get a (2 * i + 1) then 2 * i + 2 else 2 * i + 1

theorem child_cases (a : Arr) (i n : Nat) : child a i n = 2 * i + 1 ∨ child a i n = 2 * i + 2 := by
  unfold child; split <;> omega

theorem child_lt (a : Arr) (i n : Nat) (h : 2 * i + 1 < n) : child a i n < n := by
  unfold child; split
  · rename_i hc; omega
  · omega

/-- Go: down(h, i0, n) — returns the array and whether the element moved -/
def down (a : Arr) (i n : Nat) : Arr × Bool :=
  if h : 2 * i + 1 ≥ n then (a, false) else
    if get a (child a i n) < get a i then
      ((down (swp a i (child a i n)) (child a i n) n).1, true)
    else (a, false)
termination_by n - i
decreasing_by
  have := child_cases a i n
  have := child_lt a i n (by omega)
  omega

/-- heap property on the prefix [0, n) -/
def IsHeapN (a : Arr) (n : Nat) : Prop := ∀ k, 0 < k → k < n → get a ((k - 1) / 2) ≤ get a k

/-- heap on [0,n) except possibly between i and its children; i's children dominate i's parent -/
def DownInv (a : Arr) (i n : Nat) : Prop :=
  (∀ k, 0 < k → k < n → (k - 1) / 2 ≠ i → get a ((k - 1) / 2) ≤ get a k) ∧
  (∀ c, 0 < c → c < n → (c - 1) / 2 = i → 0 < i → get a ((i - 1) / 2) ≤ get a c)

theorem down_size (a : Arr) (i n : Nat) : (down a i n).1.size = a.size := by
  induction hm : n - i using Nat.strongRecOn generalizing a i with
  | _ m ih =>
    unfold down
    split
    · rfl
    · rename_i hlt
      split
      · simp only
        have := child_cases a i n
        have := child_lt a i n (by omega)
        rw [ih (n - child a i n) (by omega) _ _ rfl, size_swp]
      · rfl

theorem down_heap (a : Arr) (i n : Nat) (hn : n ≤ a.size) (hi : i < n) (h : DownInv a i n) :
    IsHeapN (down a i n).1 n := by
  induction hm : n - i using Nat.strongRecOn generalizing a i with
  | _ m ih =>
    unfold down
    split
    · -- no children inside the prefix: nothing can be broken
      rename_i hge
      intro k hk hkn
      exact h.1 k hk hkn (by omega)
    · rename_i hlt
      have hlt' : 2 * i + 1 < n := by omega
      generalize hj : child a i n = j
      have hjc : j = 2 * i + 1 ∨ j = 2 * i + 2 := hj ▸ child_cases a i n
      have hjn : j < n := hj ▸ child_lt a i n hlt'
      have hjpar : (j - 1) / 2 = i := by omega
      -- j is the smaller of the children inside the prefix
      have hjmin : ∀ c, 0 < c → c < n → (c - 1) / 2 = i → get a j ≤ get a c := by
        intro c hc hcn hcp
        have hcc : c = 2 * i + 1 ∨ c = 2 * i + 2 := by omega
        subst hj
        unfold child
        split
        · rename_i hcond
          rcases hcc with rfl | rfl
          · omega
          · exact Int.le_refl _
        · rename_i hcond
          rcases hcc with rfl | rfl
          · exact Int.le_refl _
          · have : ¬ (get a (2 * i + 2) < get a (2 * i + 1)) := by
              intro hh; exact hcond ⟨hcn, hh⟩
            omega
      split
      · rename_i hless
        simp only
        have hia : i < a.size := by omega
        have hja : j < a.size := by omega
        apply ih (n - j) (by omega) (swp a i j) j (by rw [size_swp]; exact hn) hjn _ rfl
        constructor
        · intro k hk hkn hkp
          rw [get_swp a _ _ _ hia hja, get_swp a _ _ _ hia hja]
          by_cases hki : k = i
          · subst hki
            have hpi : (k - 1) / 2 ≠ k := by omega
            have hpj : (k - 1) / 2 ≠ j := by omega
            simp only [hpi, hpj, if_false, if_true]
            exact h.2 j (by omega) hjn hjpar hk
          · by_cases hkj : k = j
            · subst hkj
              have : k ≠ i := hki
              simp only [hjpar, this, if_false, if_true]
              omega
            · simp only [hki, hkj, if_false]
              by_cases hp : (k - 1) / 2 = i
              · simp only [hp, if_true]
                exact hjmin k hk hkn hp
              · have hpj : (k - 1) / 2 ≠ j := hkp
                simp only [hp, hpj, if_false]
                exact h.1 k hk hkn hp
        · intro c hc hcn hcp hjpos
          rw [get_swp a _ _ _ hia hja, get_swp a _ _ _ hia hja]
          have hci : c ≠ i := by omega
          have hcj : c ≠ j := by omega
          have hji : j ≠ i := by omega
          simp only [hjpar, if_true, hci, hcj, if_false]
          have := h.1 c hc hcn (by omega)
          rw [hcp] at this
          exact this
      · rename_i hnl
        show IsHeapN a n
        intro k hk hkn
        by_cases hp : (k - 1) / 2 = i
        · have := hjmin k hk hkn hp
          rw [hp]; omega
        · exact h.1 k hk hkn hp

end HeapSpike
