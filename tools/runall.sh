#!/bin/bash
# Runs every claimed check on the current tree (tier from $1, default quick) and prints one line per check.
cd "$(dirname "$0")/.."
tier=${1:-quick}
fail=0
for p in $(python3 -c "import json; print(' '.join(c['property_id'] for c in json.load(open('MANIFEST.json'))['checks']))"); do
  t0=$(date +%s)
  out=$(timeout 7200 ./check $p --tier $tier 2>&1); rc=$?
  echo "$p exit=$rc $(( $(date +%s) - t0 ))s $(echo "$out" | grep -c '^VIOLATION') violation line(s)"
  [ $rc -ne 0 ] && { fail=1; echo "$out" | grep -A1 '^VIOLATION' | head -6; }
done
exit $fail
