#!/usr/bin/env python3
"""Confirm a seeded defect and run the checks against it.

tools/seedtest.py <src dir with patch.diff + demo> <name> <property> <demo target dir in repo, e.g. quartz> [--checks C07,C01] [--demo-run REGEX]

1. copies patch.diff, the demonstration and notes into /verif/seeded/<name>/
2. in a scratch worktree: applies the patch, builds, runs the existing suite (<=3 tries), runs the demo (must fail);
   then on the clean tree the demo must pass
3. applies the patch to /repo, runs ./check <id> for the requested checks, restores /repo
4. writes /verif/seeded/<name>/meta.json"""
import argparse, glob, json, os, re, shutil, subprocess, sys, time

V = os.path.dirname(os.path.dirname(os.path.abspath(__file__)))
ENV = dict(os.environ, GOFLAGS="-mod=mod", GOPROXY="off", GOSUMDB="off", GOTOOLCHAIN="local")


def sh(cmd, cwd=None, timeout=900):
    try:
        p = subprocess.run(cmd, cwd=cwd, env=ENV, timeout=timeout, stdout=subprocess.PIPE, stderr=subprocess.STDOUT, text=True, errors="replace", shell=isinstance(cmd, str))
        return p.returncode, p.stdout
    except subprocess.TimeoutExpired as e:
        return 124, (e.stdout or b"").decode("utf8", "replace") if isinstance(e.stdout, bytes) else (e.stdout or "") + "[timeout]"


def main():
    ap = argparse.ArgumentParser()
    ap.add_argument("src"); ap.add_argument("name"); ap.add_argument("prop"); ap.add_argument("demodir")
    ap.add_argument("--checks"); ap.add_argument("--skip-confirm", action="store_true"); ap.add_argument("--tier", default="quick")
    ap.add_argument("--slot", help="run the checks in a private copy of /verif against a private worktree of /repo with the patch applied (leaves /repo and /verif/evidence alone; lets several evaluations run side by side)")
    a = ap.parse_args()
    dst = os.path.join(V, "seeded", a.name)
    os.makedirs(dst, exist_ok=True)
    for f in ([] if os.path.abspath(a.src) == os.path.abspath(dst) else os.listdir(a.src)):
        p = os.path.join(a.src, f)
        if os.path.isdir(p):
            shutil.copytree(p, os.path.join(dst, f), dirs_exist_ok=True)
        else:
            shutil.copy(p, dst)
    demos = [f for f in os.listdir(dst) if f.endswith("_test.go")]
    meta = {"name": a.name, "property": a.prop, "source": "independent sub-agent given only the property text and a scratch worktree",
            "demo": demos, "demo_dir": a.demodir}
    old_meta = os.path.join(dst, "meta.json")
    if os.path.exists(old_meta):
        try:
            prev = json.load(open(old_meta))
            for k2 in ("patch_applies", "builds", "suite_passes_with_patch", "demo_fails_with_patch", "demo_passes_on_clean_tree", "demo_output_with_patch", "history"):
                if k2 in prev:
                    meta[k2] = prev[k2]
            meta.setdefault("history", []).append({"checks_run_before": prev.get("checks_run")})
        except Exception:
            pass
    notes = os.path.join(dst, "notes.md")
    if os.path.exists(notes):
        meta["needs_to_manifest"] = open(notes).read()[:1500]
    patch = os.path.join(dst, "patch.diff")
    if not a.skip_confirm:
        wt = "/tmp/seedchk_%d" % os.getpid()
        sh(["git", "-C", "/repo", "worktree", "add", "-q", "--detach", wt, "HEAD"])
        try:
            rc, out = sh(["git", "apply", patch], cwd=wt)
            if rc != 0:
                rc, out = sh(["git", "apply", "--3way", patch], cwd=wt)
                sh(["git", "reset", "-q"], cwd=wt)
                sh("git diff > /tmp/seed_rebased_%d.diff" % os.getpid(), cwd=wt)
                patch_for_revert = "/tmp/seed_rebased_%d.diff" % os.getpid()
            else:
                patch_for_revert = patch
            meta["patch_applies"] = rc == 0
            rc, out = sh("go build ./...", cwd=wt)
            meta["builds"] = rc == 0
            suite = False
            for i in range(3):
                rc, out = sh("go test -vet=off -count=1 ./...", cwd=wt, timeout=900)
                if rc == 0:
                    suite = True
                    break
            meta["suite_passes_with_patch"] = suite
            if not suite:
                meta["suite_log"] = out[-1500:]
            for d in demos:
                shutil.copy(os.path.join(dst, d), os.path.join(wt, a.demodir, "zz_seed_" + d))
            names = set()
            for d in demos:
                names |= set(re.findall(r"^func (Test\w+)", open(os.path.join(dst, d)).read(), re.M))
            runre = "^(" + "|".join(sorted(names)) + ")$"
            meta["demo_tests"] = sorted(names)
            rc, out = sh("go test -vet=off -count=1 -run '%s' ./%s/ 2>&1 | tail -40" % (runre, a.demodir), cwd=wt, timeout=600)
            meta["demo_fails_with_patch"] = "FAIL" in out
            meta["demo_output_with_patch"] = out[-800:]
            sh(["git", "checkout", "--", "."], cwd=wt)
            rc, out = sh("go test -vet=off -count=1 -run '%s' ./%s/ 2>&1 | tail -15" % (runre, a.demodir), cwd=wt, timeout=600)
            meta["demo_passes_on_clean_tree"] = "FAIL" not in out and "ok" in out
            if not meta["demo_passes_on_clean_tree"]:
                meta["demo_output_clean"] = out[-800:]
        finally:
            sh(["git", "-C", "/repo", "worktree", "remove", "--force", wt])
    checks = (a.checks or a.prop).split(",")
    res = {}
    if a.slot:
        return run_in_slot(a, meta, patch, checks, dst)
    rc, out = sh(["git", "-C", "/repo", "status", "--porcelain"])
    if out.strip():
        print("refusing: /repo is not clean"); return 2
    rc, out = sh(["git", "-C", "/repo", "apply", patch])
    if rc != 0:   # the tree moved on (later fix: commits): try a three-way merge of the seeded change
        rc, out = sh(["git", "-C", "/repo", "apply", "--3way", patch])
        sh(["git", "-C", "/repo", "reset", "-q"])
        meta["applied_with_3way_on"] = sh(["git", "-C", "/repo", "log", "--format=%h", "-1"])[1].strip()
    if rc != 0:
        sh(["git", "-C", "/repo", "checkout", "--", "."])
        print("patch does not apply to the current /repo:", out[-300:]); return 2
    saved = {}
    for c in checks:   # evidence files must only ever come from runs on the unchanged tree: keep and restore them
        ep = os.path.join(V, "evidence", c + ".json")
        saved[ep] = open(ep).read() if os.path.exists(ep) else None
    try:
        for c in checks:
            t = time.time()
            rc, out = sh([os.path.join(V, "check"), c, "--tier", a.tier], cwd=V, timeout=3000)
            res[c] = summarise(rc, out, time.time() - t)
    finally:
        sh(["git", "-C", "/repo", "checkout", "--", "."])
        for ep, txt in saved.items():
            if txt is None:
                if os.path.exists(ep):
                    os.remove(ep)
            else:
                open(ep, "w").write(txt)
        sh("go build -o %s/build/bin/ ./cmd/qh ./cmd/extract" % V, cwd=os.path.join(V, "harness"))   # binaries of the unchanged tree again
        sh([os.path.join(V, "build", "bin", "extract"), "-lean", os.path.join(V, "lean/QuartzModel/Generated/Facts.lean"), "-json", os.path.join(V, "build/facts.json")])
    meta["checks_run"] = res
    meta["what_i_ran"] = "tools/seedtest.py %s (scratch worktree: apply, go build, existing suite, demo with/without; then git -C /repo apply, ./check <id>, git -C /repo checkout -- .)" % " ".join(sys.argv[1:])
    json.dump(meta, open(os.path.join(dst, "meta.json"), "w"), indent=1)
    print(json.dumps({k: meta.get(k) for k in ("name", "builds", "suite_passes_with_patch", "demo_fails_with_patch", "demo_passes_on_clean_tree")}))
    for c, r in res.items():
        print(c, "CAUGHT" if r["caught"] else "missed", "(no-failing-input-found)" if r["no_failing_input_found"] else "", r["wall_s"], "s")
        print("   ", r["first"][:300].replace("\n", " | "))


def summarise(rc, out, wall):
    """A check prints up to five VIOLATION lines, each followed by an indented summary. The change counts as caught with a concrete failing
    input when at least one of them does not end in no-failing-input-found; that one is quoted."""
    ls = out.split("\n")
    blocks = []
    for i, l in enumerate(ls):
        if l.startswith("VIOLATION"):
            blocks.append((l, ls[i + 1] if i + 1 < len(ls) and ls[i + 1].startswith("   ") else ""))
    concrete = [b for b in blocks if not b[0].rstrip().endswith("no-failing-input-found")]
    pick = (concrete or blocks or [("", "")])[0]
    return {"exit": rc, "caught": rc == 1 and bool(blocks), "no_failing_input_found": bool(blocks) and not concrete,
            "first": (pick[0] + "\n" + pick[1])[:700], "violation_lines": len(blocks), "wall_s": round(wall, 1)}


def run_in_slot(a, meta, patch, checks, dst):
    """Same as the /repo path, but on copies: /tmp/ve<slot> (copy of /verif, go.mod replace pointed at the worktree) and
    /tmp/ve<slot>_repo (worktree of /repo's HEAD with the patch applied); VERIF_REPO makes the extractor read the worktree."""
    vd, rd = "/tmp/ve%s" % a.slot, "/tmp/ve%s_repo" % a.slot
    sh(["git", "-C", "/repo", "worktree", "remove", "--force", rd])
    shutil.rmtree(rd, ignore_errors=True)
    sh(["git", "-C", "/repo", "worktree", "prune"])
    rc, out = sh(["git", "-C", "/repo", "worktree", "add", "-q", "--detach", rd, "HEAD"])
    res = {}
    try:
        rc, out = sh(["git", "apply", patch], cwd=rd)
        if rc != 0:
            rc, out = sh(["git", "apply", "--3way", patch], cwd=rd)
            sh(["git", "reset", "-q"], cwd=rd)
            meta["applied_with_3way_on"] = sh(["git", "-C", "/repo", "log", "--format=%h", "-1"])[1].strip()
        if rc != 0:
            print("patch does not apply to the current /repo:", out[-300:]); return 2
        os.makedirs(vd, exist_ok=True)
        sh(["rsync", "-a", "--delete", "--exclude", ".git", "--exclude", "build/run", "--exclude", "build/replay", "--exclude", "build/*.lock", V + "/", vd + "/"])
        gm = os.path.join(vd, "harness", "go.mod")
        gmtxt = open(gm).read().replace("=> /repo", "=> " + rd)
        open(gm, "w").write(gmtxt)
        env = dict(ENV, VERIF_REPO=rd)
        for c in checks:
            t = time.time()
            try:
                p = subprocess.run([os.path.join(vd, "check"), c, "--tier", a.tier], cwd=vd, env=env, timeout=3000, stdout=subprocess.PIPE, stderr=subprocess.STDOUT, text=True, errors="replace")
                rc, out = p.returncode, p.stdout
            except subprocess.TimeoutExpired as e:
                rc, out = 124, "[timeout]"
            out = out.replace(vd, V)
            res[c] = summarise(rc, out, time.time() - t)
    finally:
        sh(["git", "-C", "/repo", "worktree", "remove", "--force", rd])
        shutil.rmtree(os.path.join(vd, "build", "run"), ignore_errors=True)
    meta["checks_run"] = res
    meta["what_i_ran"] = "tools/seedtest.py %s (scratch worktree: apply, go build, existing suite, demo with/without; then the checks of a copy of /verif (%s) against a worktree of /repo with the patch applied (%s, VERIF_REPO))" % (" ".join(sys.argv[1:]), vd, rd)
    json.dump(meta, open(os.path.join(dst, "meta.json"), "w"), indent=1)
    print(json.dumps({k: meta.get(k) for k in ("name", "builds", "suite_passes_with_patch", "demo_fails_with_patch", "demo_passes_on_clean_tree")}))
    for c, r in res.items():
        print(c, "CAUGHT" if r["caught"] else "missed", "(no-failing-input-found)" if r["no_failing_input_found"] else "", r["wall_s"], "s")
        print("   ", r["first"][:300].replace("\n", " | "))
    return 0


if __name__ == "__main__":
    sys.exit(main())
