#!/bin/bash
# tools/seedbatch.sh <round tag, e.g. r4> <slot> <ID> <demo dir> [checks]  — evaluates /tmp/mut/<ID>d/_out/mut{1,2,3} in slot <slot>
cd "$(dirname "$0")/.."
tag=$1; slot=$2; id=$3; dir=$4; checks=${5:-$id}
for k in 1 2 3; do
  src=/tmp/mut/${id}${SUF:-d}/_out/mut$k
  [ -f $src/patch.diff ] || continue
  d=$dir
  # a demo that says `package csm` belongs into internal/csm, `package quartz_test`/`quartz` into quartz, ...
  pk=$(grep -h -m1 '^package ' $src/*_test.go | awk '{print $2}')
  case "$pk" in csm) d=internal/csm;; logger_test|logger) d=logger;; job_test|job) d=job;; matcher_test|matcher) d=matcher;; quartz_test|quartz) d=quartz;; esac
  echo "=== $id-$tag-mut$k (demo dir $d)"
  timeout 3600 python3 tools/seedtest.py $src $id-$tag-mut$k $id $d --checks $checks --slot $slot 2>&1 | tail -8
done
