#!/usr/bin/env python3
"""Regenerates /verif/MANIFEST.json from the table below (single source of truth for what is claimed)."""
import json, os, subprocess

V = os.path.dirname(os.path.dirname(os.path.abspath(__file__)))
ids = [json.loads(l)["id"] for l in open(os.path.join(V, "properties.jsonl"))]

CLAIMED = {
    "C01": dict(
        text="Lean theorems about a hand-written model of internal/csm + CronTrigger.NextFireTime (generic odometer theory `findForward_spec`: least all-valid configuration above the start; node contracts; calendar order = Unix order), for all fields x prev x fixed offsets; the model is tied to the code by facts regenerated from the source on every run (node limits, parser bounds, glossaries) and by exact differential execution against the real code with an independent brute-force oracle as third voice.",
        note="trusts: Lean kernel; fact extractor; Go harness/diff driver; Go time package = proleptic Gregorian calendar (validated against the Lean calendar); Lean code generator for running the model. The end-to-end statement C01_sound is assembled from the listed lemmas (see evidence: obligations).",
        technique="Lean 4 refinement proof (odometer least-element theorem) about definitions TRANSLATED from internal/csm + quartz/csm.go on every run (gotolean; translated = hand model for all inputs, C01_sound_trans) + regenerated facts + differential correspondence",
        ref="DESIGN.md §0.8, §6 C01"),
    "C02": dict(
        text="Same development as C01: the model returns the least matching instant after prev (no skip) and `expired` exactly when the odometer is exhausted, which the theory shows happens iff no all-valid configuration above the start exists (year <= 2261). Differential run judges skipped instants and spurious/missing expiry with the independent oracle.",
        note="as C01",
        technique="Lean 4 refinement proof (least element + exhaustion iff none) about definitions TRANSLATED from the source on every run (C02_minimal_trans) + regenerated facts + differential correspondence",
        ref="DESIGN.md §0.8, §6 C01/C02"),
    "C06": dict(
        text="Totality is a theorem of the model (structural recursion; `loop_fuel`: with digit bounds and the mixed-radix measure the search loop never runs out of fuel) and the real code is run in supervised worker processes (deadline, crash detection) on never-firing and boundary expressions; purity checked by repeated evaluation on one trigger and a -race hammer in the thorough tier.",
        note="absence of hidden mutable state in the Go trigger is observed (repeat calls, Description unchanged, race detector), not proved",
        technique="Lean 4 termination/fuel-sufficiency proof about definitions TRANSLATED from the source on every run (C06_total_trans) + supervised differential execution",
        ref="DESIGN.md §0.8, §6 C06"),
    "C07": dict(
        text="Lean theorems about a character-level model of the parser (everything accepted is well-formed and in range; rejection classes; macros = expansions; whitespace insignificant; missing year = every year); tie: regenerated bounds/glossaries/macro table + accept/reject differential on grammar, invalid-by-construction, single-edit mutant and raw-byte streams, meaning compared through NextFireTime.",
        note="Go regexp/strconv/strings/unicode behaviour is re-implemented in the model and compared, not verified",
        technique="Lean 4 proofs about a parser model proved EQUAL to the parser TRANSLATED from quartz/cron.go + util.go on every run (gotolean-parse, gotolean-cron: text level, integer helpers, regexps / glossaries / macro table as data; library functions as externals; trans_NewCronTrigger, C07_*_trans, end to end trans_newTrigger_nextFire) + regenerated facts + differential correspondence",
        ref="DESIGN.md §6 C07"),
}

CLAIMED["C11"] = dict(
    text="Lean theorems about a transcription of container/heap (up/down/Push/Pop/Remove on an array) and of quartz/queue.go: heap order and key uniqueness are invariants of every operation sequence (C11_inv_reachable), Pop/Head return a minimum, Get/Remove address the entry with that key, duplicate pushes are rejected unless Replace and then replace exactly that entry, ScheduledJobs returns exactly the entries satisfying all matchers, string operators mean prefix/suffix/infix/equality. Tie: exact differential execution incl. heap array order against quartz.NewJobQueue() (random and exhaustive-small op sequences) plus an abstract key->entry map oracle in the harness.",
    note="container/heap is modelled (transcribed) and compared, not verified; thread safety: every exported method runs under the queue's mutex from its first statement (regenerated fact), hence C11_linearizable / C11_concurrent_inv for every interleaving; sync.Mutex = mutual exclusion is trusted",
    technique="Lean 4 invariant + refinement proofs over all op sequences about definitions TRANSLATED on every run from quartz/queue.go, matcher/*.go and the toolchain's container/heap (gotolean-queue; translated = queue model, C11_*_trans) + linearizability theorem from regenerated lock facts + exact differential correspondence + concurrent-history linearizability search",
    ref="DESIGN.md §6 C11")

CLAIMED["C14"] = dict(
    text="Lean theorems about the NextFireTime loop with the location abstracted to arbitrary functions (offset in force at an instant; the instant time.Date names for a reading): soundness, no matching local reading passed over unless none of the code's candidate instants shows it after prev (gap / earlier pass of an overlap), expiry only when that holds for every matching reading ahead, termination, exactness when the offset does not change between prev and the candidate, strictly advancing chains — with NO assumption on how time.Date resolves gaps and overlaps. Tie: differential execution in IANA zones (transitions read with ZoneBounds, time.Date's two-lookup resolution transcribed and compared) around transitions, judged by a per-second wall-clock oracle that permits only the documented latitude.",
    note="tzdata and time.Date's choice of occurrence are trusted/observed; the theorems do not depend on them",
    technique="Lean 4 proof over an abstract zone (loop invariant + measure; proved negation of the full-strength expiry clause = known finding) about NextFireTime TRANSLATED from quartz/cron.go + internal/csm on every run (C14_*_transCron) + differential correspondence in IANA zones",
    ref="DESIGN.md §6 C14")
CLAIMED["C09"] = dict(
    text="Lean theorems: (concurrent part) threads whose multi-step bodies run under one mutex are linearizable in lock-acquisition order under every schedule (Lock.linearizable), instantiated with the registry calls and the dispatch step; its premise is a regenerated fact (every StdScheduler method makes all queue calls after queueLocker.Lock(); defer Unlock(); the only unlocked queue calls are the loop's read-only Size/Head). (sequential part) error => registry unchanged, sentinel iff precondition, unique keys in every reachable state (Theorems/C09.lean, when present in the evidence). Tie: exact differential of every API call against the real scheduler (gated queue), an independent precondition oracle in the harness, and a linearizability search over recorded concurrent histories with default and copying queues.",
    note="sync.Mutex = mutual exclusion is assumed; the linearizability search on recorded histories is validation, not the proof",
    technique="Lean 4 linearizability theorem (inductive invariant over all schedules) + registry methods TRANSLATED from quartz/scheduler.go on every run and proved equal to the model for any queue (trans_ScheduleJob … C09_*_error_unchanged_trans) + regenerated lock-dominance and clock-order facts + differential correspondence",
    ref="DESIGN.md §6 C09")

CLAIMED["C03"] = dict(
    text="Lean theorems over ALL histories of (API call | dispatch step at an arbitrary clock reading) of the scheduler model: a dispatched entry is the popped minimum, not suspended, with fire time <= now and >= now - threshold (C03_never_early, C03_dispatch_is_popped_min); there is an injection from dispatches to EARLIER calls of the job's own trigger that returned exactly that fire time (C03_own_trigger_once => own fire time, at most once). Steps at arbitrary times cover spurious/stale wake-ups and foreign queue changes. Tie: validateJob/fetchAndReschedule facts pinned by decide (operators, operands, trigger argument per branch, order lock-pop-classify-next-push-reset); every real dispatch step (released one at a time through a gated JobQueue) compared exactly with the model; concurrent stress runs (3 modes x 1-3 schedulers sharing queue+lock x both timer-channel semantics) judged for early/duplicate/unowned executions.",
    note="real-time jitter: fire times placed >= 10 min from classification boundaries; concurrency of the real loop is observed (stress), the theorems are about the model's atomic steps, atomicity = lock facts of C09",
    technique="Lean 4 invariant proofs over all histories about the dispatch step TRANSLATED from quartz/scheduler.go on every run (trans_validateJob, trans_fetchAndReschedule, C03_never_early_trans / _any_queue) + regenerated facts + step-by-step differential (gated queue) + concurrent conformance",
    ref="DESIGN.md §6 C03/C04/C08")
CLAIMED["C04"] = dict(
    text="Lean theorems: every popped active fire time is exactly one of executed (next computed from the scheduled time), misfired (iff now - f > threshold; offered; re-based on now) or not due (re-pushed unchanged) with registry accounting as multisets (C04_accounted, C04_misfire_iff_late); trigger reports no further fire time => job leaves the registry, still dispatched if it was on time (C04_leaves_registry); no drift for interval triggers regardless of the actual clock readings (C04_no_drift); a run-once job is dispatched exactly once and then absent (C04_run_once), hypotheses shown reachable. Tie as C03; the harness additionally checks that the trigger received the scheduled time (valid) or the current time (outdated, ScheduleJob, ResumeJob) by bracketing the call with clock readings.",
    note="as C03",
    technique="Lean 4 case-exhaustive step theorem + history invariants about the dispatch step and the interval triggers TRANSLATED from the source on every run (trans_fetchAndReschedule, trans_addNanos, C04_accounted_trans) + regenerated facts + step-by-step differential",
    ref="DESIGN.md §6 C03/C04/C08")
CLAIMED["C08"] = dict(
    text="Lean theorems: a successful pause keeps the entry listed, suspended, parked at MaxInt64 with the same trigger state (C08_pause_effect); for every continuation not touching the key no trigger call, dispatch or misfire of that job occurs and it stays listed as paused (C08_paused_no_consumption[_reachable]); after delete/clear the job is never popped again (C08_delete_effect, C08_clear_effect); resume re-activates with the trigger's answer to the clock reading of the resumption (C08_resume_from_now). Tie as C03 plus concurrent pause/resume/delete storms judged against the return times of the API calls.",
    note="'already dequeued' = the loop step happened before the API call acquired the queue lock (lock facts of C09)",
    technique="Lean 4 invariant proofs over all continuations + PauseJob/ResumeJob/DeleteJob/Clear and the dispatch step TRANSLATED from the source on every run and proved equal to the model + regenerated facts (locks, clock order) + differential + concurrent conformance",
    ref="DESIGN.md §6 C03/C04/C08")

CLAIMED["C10"] = dict(
    text="Lean theorems about an interleaving model of Start/Stop/context cancellation/watcher/loop/workers/job goroutines with run generations, for ALL interleavings: Start and Stop idempotent; IsStarted equals the fold of the user calls in call order (C10_isStarted_latest, unconditional after repair ec88e72); cancel of the current run's context and Stop are indistinguishable through IsStarted under every continuation (C10_cancel_eq_stop); after stop;start or cancel;start no stale watcher clears the new run (C10_restart) with proved negative controls for the unguarded watcher and for Start without the pre-stop (the two repaired defects); the WaitGroup counter equals the number of live counted goroutines, so Wait returning means all are gone (C10_wait_sound). Tie: regenerated facts (every go statement is wg-counted except Wait's helper; shapes of Start/stopRun/stop/IsStarted/Wait; ctx passed down to Job.Execute) + scripted and random call sequences on real schedulers in three modes compared with the model's expected flag, restart x300, cancel-restart x200, goroutine dump after Wait.",
    note="Go channel / RWMutex / context / WaitGroup semantics trusted; goroutine exit latency and the goroutine dump are observed with grace periods",
    technique="Lean 4 inductive invariants over all interleavings + lock-hierarchy deadlock-freedom theorem instantiated with regenerated per-method lock programs + regenerated structural facts + scenario harness",
    ref="DESIGN.md §6 C10")
CLAIMED["C12"] = dict(
    text="Lean theorems about an interleaving model of the three-way dispatch (inline / rendezvous hand-off to a fixed pool over the unbuffered channel / one goroutine per execution) for ALL reachable states: in-flight <= 1 in blocking mode, = busy workers <= n with WorkerLimit n, n in flight reachable for every n, the loop never waits on a job in unbounded mode (enabledness independent of the in-flight count), a full pool is the only thing that blocks the loop, BlockingExecution ignores WorkerLimit; negative controls (buffered channel, swapped switch order). Tie: regenerated facts (dispatch capacity 0, switch case order and arms, startWorkers guard, worker loop bound and body) + instrumented jobs with in-flight counters and barriers on real schedulers.",
    note="genuine parallelism needs >= n runnable Ps (16 here): observed by barriers with deadlines, not proved",
    technique="Lean 4 inductive invariants over all interleavings, whose per-goroutine code (dispatch switch, startWorkers, worker rounds) is TRANSLATED from quartz/scheduler.go on every run and proved equal to the model's code parameters (gotolean-retry: trans_dispatch_arm, trans_startWorkers, trans_dispatchCap, trans_worker_rounds) + regenerated structural facts + barrier harness",
    ref="DESIGN.md §6 C12")

CLAIMED["C13"] = dict(
    text="Lean theorems about executeWithRetries as a total function of (MaxRetries, outcome script, cancel point), for ALL of them: attempts = 1 + min(max 0 MaxRetries, failures before the first success); stops on the first success; a context end during the k-th wait gives exactly k attempts; the trace is attempt, wait, attempt, ... so every re-attempt is preceded by one RetryInterval wait (with a timed version: starts are >= interval after the previous end); a panic ends the sequence, is consumed by the deferred recover and the function returns normally (the result type has no propagated-panic outcome; recovered iff some attempt panicked). Tie: regenerated shape of executeWithRetries (deferred recover first, loop bounds i:=1; i<=MaxRetries, break on success, ctx.Done break, call sites) pinned by decide + exhaustive differential: MaxRetries in {-1..4} x all outcome strings of length <= 5 over {ok, err, panic} x three execution modes on the real scheduler, plus cancellations; sibling job, next fire time and Wait observed after panics.",
    note="time.NewTimer/select/defer-recover semantics trusted; real-time gaps >= RetryInterval observed one-sidedly",
    technique="Lean 4 proofs about a retry-loop model proved EQUAL to executeWithRetries TRANSLATED from quartz/scheduler.go on every run, for every script, MaxRetries, cancel point and select choice (gotolean-retry: trans_executeWithRetries, C13_*_trans, C13_*_any for arbitrary externals) + regenerated shape facts + exhaustive differential correspondence",
    ref="DESIGN.md §6 C13")
CLAIMED["C17"] = dict(
    text="Lean theorems about an interleaving model of isolatedJob.Execute (atomic swap, delegate, deferred store) for ANY number of threads and ALL interleavings via an inductive invariant: at most one thread is inside the delegate or between its exit and the store (C17_mutex); a call that sees the flag set never enters the delegate and returns the error (C17_fail_fast); flag true iff some thread holds it, and after any completion incl. panic the holder's next step clears it, so the next call is admitted (C17_reopens, C17_admitted_when_free, C17_reopens_progress); proved negative control without the defer (a panic shuts the gate for ever). Tie: regenerated facts (swap guard returning an error first, defer Store(false) before the delegate call, atomic.Bool) + hammer: 32 goroutines with in-flight counter, panics, rejected calls never invoke the delegate, quiescent probe admitted, also through a real scheduler.",
    note="sync/atomic semantics trusted; real interleavings observed",
    technique="Lean 4 inductive invariant over all interleavings and thread counts, whose per-thread program is tied to isolatedJob.Execute TRANSLATED from the source on every run (gotolean-logger: trans_isolated_call, pcStep_is_Step, trans_execute_program, C17_*_trans; the string facts are implied) + regenerated facts + concurrent hammer",
    ref="DESIGN.md §6 C17")

CLAIMED["C16"] = dict(
    text="Lean theorems: status decision tables for ALL inputs (function: OK iff err = nil; shell: OK iff Run returned no error, with exit code under the os/exec contract; curl: OK iff a response exists and 200 <= code < 400, every Nat code); the accessors show exactly the fields of the execution whose atomic store happened last, never a mixture, for every schedule of concurrent executions (C16_last_execution, generic over the critical section, instantiated for the three jobs; negative control without the lock); one callback per completed execution; a CurlJob holds at most one open response body in every reachable state, also concurrently, with the proved negative control for the unrepaired leak. Tie: regenerated facts (operators and constants of the status tests, Close before Do under the lock, all stored fields assigned between one Lock and one Unlock, one callback site after Unlock, CommandContext/WithContext) + differential: all exit codes 0-255, all HTTP codes 100-599 (scripted handler) and 200-599 (loopback server), execution sequences on one job, cancellation, leak counters 100 vs 300 executions.",
    note="os/exec, net/http internals (connection release, process reaping) are observed (goroutine/fd/process counts), not proved",
    technique="Lean 4 decision-table and interleaving proofs about the Execute methods and accessors TRANSLATED from job/*.go on every run (gotolean-jobs: trans_function/shell/curl_execute = the model's store steps, lock discipline as a theorem, C16_*_trans) + regenerated facts + exhaustive differential over finite code spaces",
    ref="DESIGN.md §6 C16")
CLAIMED["C18"] = dict(
    text="Lean theorems: a record is emitted iff threshold <= level for EVERY Int threshold and the five levels (LevelOff silences all as a corollary); the line is msg= followed by all arguments in order (structural and positional specification, odd tail, none); in EVERY interleaving of any number of goroutines logging through the mutex each emitted line carries the prefix of the level it was logged at, and each goroutine's enabled records are written exactly once in order (C18_label, C18_complete); proved negative control without the mutex (two goroutines, mislabelled line); NoOp emits nothing; slog level map Trace=-8..Error=8 and attrs in order. Tie: regenerated facts (six level constants, five prefixes, operator in enabled, method->constant/prefix table, Lock/defer Unlock/SetPrefix/Output shape, formatMessage loop, slog level arguments) + exact line differential for all level/threshold/argument shapes + 16-goroutine self-describing messages.",
    note="log.Logger's own atomic line write, fmt rendering of non-string args and slog handler behaviour are observed",
    technique="Lean 4 proofs (filter, format, interleaving invariant) about the loggers TRANSLATED from logger/*.go on every run (gotolean-logger: trans_formatMessage, trans_simpleLog, trans_slogLog, trans_erun, C18_*_trans) + regenerated facts + exact line differential",
    ref="DESIGN.md §6 C18")

CLAIMED["C05"] = dict(
    text="Lean theorems about an interleaving model of the execution loop (Size, Head, arm timer, select, tick) with any number of API calls (lock, mutate, send token), no fairness or timing assumption, for ALL interleavings: whenever the queue's earliest fire time moved forward since the loop last read it, a token is pending, a send is pending, or the loop has not read yet (C05_invariant); hence a loop blocked in select without a token is armed for a deadline that covers the earliest fire time of the CURRENT queue (C05_parked_correct, C05_never_lost); taking a token always leads back to reading the queue; the send never blocks. Instantiated with facts regenerated from the source (interrupt capacity 1, Reset() is select-send-default, ScheduleJob/ResumeJob send after the mutation under the lock, loop order). Proved negative controls: capacity 0, no send, send before the mutation, no re-read, blocking send. Tie: facts + scenario matrix on the real scheduler (5 park modes x 3 calls x 4 stall points x 4 interleaves of other mutations) with a latency verdict.",
    note="'promptly' additionally needs timer accuracy and goroutine fairness: observed with a 300 ms one-sided threshold, not proved",
    technique="Lean 4 inductive invariant over all interleavings, parameterised by regenerated facts; Reset() and the loop iteration's use of the interrupt channel TRANSLATED from the source on every run (gotolean-loop: trans_Reset, trans_iter_interrupt_use, trans_iter_exit) + scenario matrix",
    ref="DESIGN.md §6 C05")
CLAIMED["C15"] = dict(
    text="Lean theorems about the loop with every queue-call result, clock reading and select outcome as an input, for ALL fault plans: after a Pop/Push error read at time t no later iteration ticks before t + RetryInterval whatever faults and interrupts follow, and the deadline is not postponed by interrupts (C15_backoff, C15_deadline_not_postponed; negative controls: no back-off state spins, the flag variant is starved by interrupts — the two repaired defects); every API method returns the error of its first failing queue call and makes no further call; a dispatch only follows a successful Pop of that entry and at most one push per pop, so no (job, fire time) is dispatched twice; once faults stop the loop behaves exactly like the fault-free loop (C15_recovers). Tie: regenerated facts (the loop's switch cases and timer arguments, retryAt assignment, error returns of fetchAndReschedule and of each API method) + fault-injecting queue: single faults exhaustively by call index x {fail, delay}, bursts, random mixes in child processes; judged for panics, hangs, propagation, duplicates, call rate, recovery under API traffic.",
    note="call rates and recovery latency are observed with one-sided thresholds; a queue on which a failed call has no effect is assumed for no-double-fire",
    technique="Lean 4 proofs over all fault assignments about the loop iteration TRANSLATED from quartz/scheduler.go on every run and proved equal to the loop model (gotolean-loop: trans_iter = Faults.iter, C15_backoff_trans, C15_deadline_not_postponed_trans, C15_no_double_fire_trans; the extracted shape facts are implied by the translated code) + proved refutation of the full-strength rate clause for Size()/Head() (known finding) + exhaustive single-fault injection",
    ref="DESIGN.md §6 C15")

REASON_PENDING = "check not built yet (build phase in progress); planned per DESIGN.md §6"

m = {
    "version": 1,
    "setup_cmd": "./check --setup",
    "hooks": {"guard": "verif", "enable": "none needed: the harness drives the public API and the extractor reads source; no hook commits exist",
              "baseline_off_cmd": "cd /repo && go test -vet=off -count=1 ./...", "source_commits": [], "add_only": True},
    "engines": [
        {"name": "lean-model", "path": "lean/", "serves_properties": sorted(CLAIMED), "kind_free_text": "Lean 4 model + theorems (QuartzModel) and compiled line-protocol driver (qmodel)"},
        {"name": "go-harness", "path": "harness/", "serves_properties": sorted(CLAIMED), "kind_free_text": "Go harness qh (public API only) + fact extractor"},
        {"name": "check-driver", "path": "checks/", "serves_properties": sorted(CLAIMED), "kind_free_text": "python orchestration: build, facts, differential, audit, evidence"},
    ],
    "checks": [],
    "notes": "See DESIGN.md. Fixes of genuine defects are recorded in known_findings.txt (fixed: entries).",
    "not_applicable": [],
}
for i in ids:
    if i in CLAIMED:
        c = CLAIMED[i]
        m["checks"].append({
            "property_id": i, "quick_cmd": "./check %s --tier quick" % i, "thorough_cmd": "./check %s --tier thorough" % i,
            "replay_cmd_template": "./check %s --replay {path}" % i, "evidence_file": "evidence/%s.json" % i,
            "engine": "lean-model",
            "level_claimed": {"category": "proof", "text": c["text"], "design_ref": c["ref"]},
            "level_note": c["note"], "technique": c["technique"]})
    else:
        m["not_applicable"].append({"property_id": i, "reason": REASON_PENDING})
json.dump(m, open(os.path.join(V, "MANIFEST.json"), "w"), indent=1)
print("claimed:", sorted(CLAIMED), "pending:", [i for i in ids if i not in CLAIMED])
