#!/usr/bin/env python3
"""Rewrites the seeded-defect table of DESIGN.md (between the SEEDTABLE markers) from seeded/*/meta.json."""
import glob, json, os, re
V = os.path.dirname(os.path.dirname(os.path.abspath(__file__)))
WHAT = {
 "C01-mut1": "stale per-month cache of the L/W/# target day (year not in the key)", "C01-mut2": "`year%4` leap rule in lastDayOfMonth (Feb 2100/2200)",
 "C01-mut3": "iteration cap 12 on the re-validation loop", "C02-mut1": "nearest-weekday search cut to distance 1", "C02-mut2": "prev rounded instead of truncated",
 "C02-mut3": "two cooperating edits drop the year ≤ 2261 filter", "C02-mut4": "`L-n` rejected when it lands on the 1st",
 "C03-mut1": "not-due guard widened by OutdatedThreshold (early run on a stale wake-up)", "C03-mut2": "failed reschedule re-pushes the old fire time and still runs it",
 "C03-mut3": "`if err == nil { return }` after the first Execute removed (a success is retried)",
 "C04-mut1": "worker-pool hand-off gets a `default:` arm (fire time dropped when the pool is busy)", "C04-mut2": "misfire continues from the stale fire time (shared closure)",
 "C04-mut3": "late last fire time both misfired and executed", "C06-mut1": "`expired` latch on the trigger (impure)", "C06-mut2": "`maxYear = 2262` (UnixNano overflow)",
 "C06-mut3": "`wall = next` in the DST retry loop (hang)", "C07-mut1": "day-field-set-twice check moved to parsed values (`L` has none)",
 "C07-mut2": "range filled before its bounds check (`makeslice` panic)", "C07-mut3": "whitespace fast path skips the `\\s+` regexp",
 "C08-mut1": "`Clear()` without the queue lock", "C08-mut2": "buffered dispatch channel", "C08-mut3": "suspended guard removed from validateJob",
 "C09-mut1": "`JobKey.Equals` via `String()` (colliding renderings)", "C09-mut2": "lock dropped from GetJobKeys/GetScheduledJob", "C09-mut3": "PauseJob flags the object from Get, pushes the one from Remove (copying queue)",
 "C11-mut1": "Remove by slice deletion instead of heap.Remove", "C11-mut2": "`JobKey.Equals` via `String()`", "C11-mut3": "`StringEquals = strings.EqualFold`",
 "C13-mut1": "`i < MaxRetries`", "C13-mut2": "recover only around the first attempt", "C13-mut3": "one ticker paces all retries",
 "C14-mut1": "`wall = next` (search resumes from the shifted instant)", "C14-mut2": "after-prev check dropped from fires()", "C14-mut3": "offset looked up at the reading taken as UTC (no correction step)",
 "C16-mut1": "response stored only on success (stale OK after a transport error)", "C16-mut2": "goroutine leaked per cancelled shell execution", "C16-mut3": "status flips to Failure when the next execution starts",
 "C17-mut1": "plain Store instead of defer (panic shuts the gate)", "C17-mut2": "Swap split into Load + Store", "C17-mut3": "early return for a dead context between claim and defer",
 "C01-r2-mut1": "re-validation loop capped at 12 passes", "C01-r2-mut2": "L/W/# target day memoised per month (year not in the key)",
 "C01-r2-mut3": "membership fast path `last-first == len-1 ⇒ range` (the parser keeps duplicates: `1-3,3,5`)",
 "C03-r2-mut1": "failed reschedule pushes the popped entry back and still runs it", "C03-r2-mut2": "not-due check hoisted out of the lock (Head() pre-check), guard in validateJob dropped",
 "C03-r2-mut3": "queue lock released while the trigger is asked", "C04-r2-mut1": "`fireTime + threshold < now` (overflows for a MaxInt64 threshold)",
 "C04-r2-mut2": "misfire offer moved behind the successful re-base (last fire time never offered)", "C04-r2-mut3": "next fire time clamped to the clock",
 "C05-r2-mut1": "started flag read before the queue lock in ScheduleJob/ResumeJob", "C05-r2-mut2": "Replace stores into the old heap slot without heap.Fix",
 "C05-r2-mut3": "honest-empty size check of d8c40f6 removed (every empty Pop backs off; = the regression of 78e46a3)",
 "C08-r2-mut1": "queue lock released while the trigger is asked", "C08-r2-mut2": "buffered per-run dispatch channel, backlog dropped at shutdown",
 "C08-r2-mut3": "two cooperating edits drop both suspended guards", "C09-r2-mut1": "`JobKey.Equals` via `String()`", "C09-r2-mut2": "registry lock released while the trigger is asked",
 "C09-r2-mut3": "Suspended flipped only after the Push (copying queue records the old flag)", "C10-r2-mut1": "ScheduleJob holds mtx.RLock across IsStarted (recursive read lock: deadlock with Stop/Start)",
 "C10-r2-mut2": "CurlJob binds the context once (stale context after a restart)", "C10-r2-mut3": "loop ignores ctx while Size() fails",
 "C11-r2-mut2": "ScheduledJobs filters an aliased slice outside the lock", "C11-r2-mut3": "Replace inserts the new entry before removing the old one (stale heap index)",
 "C12-r2-mut1": "retries run in a goroutine of their own (outside the bound)", "C12-r2-mut2": "recover moved to the caller (a panic ends the worker)",
 "C12-r2-mut3": "WorkerLimit arm before BlockingExecution arm", "C13-r2-mut1": "one retry timer re-armed when it fires (interval counted from the start of the previous attempt)", "C13-r2-mut2": "worker exits when a run's context is dead after an execution",
 "C13-r2-mut3": "RetryInterval <= 0 skips the wait and the context re-check", "C15-r2-mut1": "failed reschedule puts the fired job back unchanged (fire time taken twice)", "C15-r2-mut2": "an interrupt clears the back-off deadline",
 "C15-r2-mut3": "ResumeJob clears the suspended flag before the Remove that may fail", "C16-r2-mut1": "CurlJob stops releasing responses of unknown length", "C16-r2-mut2": "ShellJob output buffers shared between executions", "C16-r2-mut3": "CurlJob binds the context once",
 "C02-r2-mut1": "year node lower bound 1970 (west of Greenwich the wall clock shows 1969 at prev ≈ 0)", "C02-r2-mut2": "lastDayOfMonth as a table with `year%4` as the only leap rule",
 "C02-r2-mut3": "CronTrigger remembers that it has expired (sticky flag)", "C06-r2-mut1": "`wall = next` in the DST loop (hang when the next reading is in a gap and prev in the other season)",
 "C06-r2-mut2": "sticky expired flag in the trigger (impure)", "C06-r2-mut3": "UTC early-out at 2262 + wildcard fast path in isValid (negative fire time east of Greenwich)",
 "C07-r2-mut1": "both-day-fields check done on parsed values (`L`, `L-n` have none)", "C07-r2-mut2": "year bound of the parser replaced by the engine limit 2261 (`2024-2300` rejected)",
 "C07-r2-mut3": "whitespace fast path: `\\s+` replacement only when a double space occurs", "C14-r2-mut1": "`fires` compares the clock (h:m:s) only (zones that skipped a whole day)",
 "C14-r2-mut2": "skip the rest of the missing HOUR after a rejected reading (gaps that do not end on the hour)", "C14-r2-mut3": "`makeDateTime` in time.Local (process zone with a midnight gap)",
 "C14-r2-mut4": "search continues from the second AFTER a rejected reading (first second after the gap lost)", "C17-r2-mut1": "in-flight counter leaks on a refused call",
 "C17-r2-mut2": "early return for an ended context between taking the gate and the deferred release", "C17-r2-mut3": "gate also released when the execution's context ends (AfterFunc)",
 "C18-r2-mut1": "message used as format string", "C18-r2-mut2": "one child log.Logger per level, mutex removed (five locks in front of one writer)",
 "C18-r2-mut3": "handler threshold resolved once at construction (LevelVar changed later)",
 "C03-r3-mut1": "a trigger error other than expiry re-queues the job at now + RetryInterval (invented fire time)", "C03-r3-mut2": "Replace updates the entry in place and forgets the new trigger",
 "C03-r3-mut3": "jobs validated against the tick's nominal time (a stale timer tick runs a job early)", "C05-r3-mut1": "fast exit at the top of the loop without handing on a consumed interrupt",
 "C05-r3-mut2": "a job popped before its time is re-timed from now (run-once: silently dropped)", "C05-r3-mut3": "pending interrupt drained before parking on an empty queue",
 "C10-r3-mut1": "ScheduleJob reads `started` before the queue lock", "C10-r3-mut2": "no Reset() after the loop's own reschedule (restart hand-over lost)",
 "C10-r3-mut3": "worker-pool wg.Add hoisted above the BlockingExecution guard (Wait never returns)", "C13-r3-mut1": "errors that wrap a context error are never retried",
 "C13-r3-mut2": "PauseJob stores a copy of the job whose options lose RetryInterval", "C13-r3-mut3": "deferred handler returns before recover() when the context has ended",
 "C14-r3-mut1": "after-prev check against the search cursor instead of prev", "C14-r3-mut2": "second pass looked up with the offset of 1 January",
 "C14-r3-mut3": "gap-skipping loop bounded by 3600 iterations", "C15-r3-mut1": "ScheduleJob reads `started` before the queue lock (slow Push overlapping Start)",
 "C15-r3-mut2": "interrupt branch no longer stops/drains the timer (stale tick ends the back-off)", "C15-r3-mut3": "error of the Size() asked after an empty Pop ignored (busy loop)",
 "C01-r3-mut1": "`maxYear = 2262` (UnixNano wraps after 2262-04-11)", "C01-r3-mut2": "`L-n` clamped to the 1st in a month that has no such day",
 "C01-r3-mut3": "unreachable years trimmed from the year list (all years > 2261: empty list = wildcard)", "C04-r3-mut1": "not-due branch merged with the valid branch (early-popped job loses its pending fire time)",
 "C04-r3-mut2": "only ErrTriggerExpired counts as no further fire time (other trigger errors: job pushed back, back-off)", "C04-r3-mut3": "clock read at the tick, before waiting for the queue lock",
 "C08-r3-mut1": "listing helper sorted by next run time (its index is used into the heap array)", "C08-r3-mut2": "ScheduleJob asks the trigger even for a suspended job",
 "C08-r3-mut3": "IsStarted() read before the queue lock in all five mutators", "C09-r3-mut1": "sorted listing breaks the index use in Push and Remove",
 "C09-r3-mut2": "Push reads the Replace option of the queued entry", "C09-r3-mut3": "ScheduleJob asks the trigger even for a job handed in suspended",
 "C11-r3-mut1": "heap comparator by subtraction (wraps when priorities are 2^63 apart)", "C11-r3-mut2": "group matcher normalises an empty pattern to the default group",
 "C11-r3-mut3": "Push reads the Replace option of the queued entry", "C12-r3-mut1": "pool capped at GOMAXPROCS", "C12-r3-mut2": "a worker leaves when a job fails with a context error",
 "C12-r3-mut3": "live-worker accounting across restarts (old workers counted, never replaced)",
 "C18-mut1": "lock released before Output", "C18-mut2": "message used as format string", "C18-mut3": "slog threshold cached at construction with an off-by-one probe",
 "C01-r4-mut1": "`closestWeekday` as a switch that forgets a Sunday that is the last day of the month (`LW` → day 32, rolled into the next month)",
 "C01-r4-mut2": "seconds/minutes-only expressions searched in UTC (fixed offsets that are not whole hours / minutes)",
 "C01-r4-mut3": "`nL` computed by stepping back from the 1st of the next month, `year++` forgotten in December",
 "C02-r4-mut1": "search restarts from the normalised instant after a spring-forward gap (matches within one shift after the gap lost)",
 "C02-r4-mut2": "repeated reading retried as `next.Add(time.Hour)` instead of with prev's offset (shifts other than 60 min)",
 "C02-r4-mut3": "`resetFrom` as an ascending loop (the day node is reset before the month)",
 "C03-r4-mut1": "ResumeJob invents the fire time `now` for a paused job whose trigger has expired",
 "C03-r4-mut2": "a long misfire is re-queued at `NextFireTime(scheduled time)` clamped to now (a time the trigger never produced)",
 "C03-r4-mut3": "Replace with a same-description trigger keeps the old trigger's pending fire time",
 "C04-r4-mut1": "failed reschedule Push puts the popped entry back and still runs it (fire time accounted for twice)",
 "C04-r4-mut2": "WorkerLimit arm before BlockingExecution arm: with both options the loop blocks on a pool that was never started",
 "C04-r4-mut3": "the misfire log line asks the trigger too (a stateful trigger is advanced twice per misfire)",
 "C05-r4-mut1": "a trigger's own non-expiry error is returned to the loop: back-off on a healthy queue",
 "C05-r4-mut2": "unbuffered interrupt channel",
 "C05-r4-mut3": "`looping` flag cleared by the exiting loop of the previous run: Reset() discarded after a restart",
 "C06-r4-mut1": "unsynchronised last-answer memo in the trigger",
 "C06-r4-mut2": "DayNode.Reset carries into the next month by recursion (fatal stack overflow for never-matching day rules)",
 "C06-r4-mut3": "after-prev check dropped from fires() as redundant",
 "C07-r4-mut1": "step checked against the span of its range (`30/30`, `*/12` in months rejected)",
 "C07-r4-mut2": "day-of-month `L` regexp replaced by a prefix test (`L5-3`, `LL-2`, `L,5-3` accepted as `L-n`)",
 "C07-r4-mut3": "one name index shared by months and weekdays (`MON` accepted as a month, `FEB` as a weekday)",
 "C08-r4-mut1": "ResumeJob keeps the fire time that was pending at the pause if it is still ahead",
 "C08-r4-mut2": "ResumeJob reads the clock before it has the queue lock",
 "C08-r4-mut3": "an entry whose next run time is MaxInt64 is not pushed back (a paused entry popped on a stale tick vanishes)",
 "C09-r4-mut1": "ResumeJob asks the trigger after the entry was removed (failed call loses the job)",
 "C09-r4-mut2": "Clear has a lock-free fast path on Size() == 0 (lands inside the loop's pop…push window)",
 "C09-r4-mut3": "key set beside the heap, not reset by Clear",
 "C10-r4-mut1": "watcher goroutine calls Stop() instead of stopping its own run",
 "C10-r4-mut2": "worker pool started before the run's context is derived (shadowed ctx: Stop does not reach the workers)",
 "C10-r4-mut3": "stop() guarded by the IsStarted expression (flag stays set after a cancelled run)",
 "C11-r4-mut1": "key set beside the heap, not reset by Clear",
 "C11-r4-mut2": "RWMutex: Push checks for a duplicate under the read lock, inserts under the write lock",
 "C11-r4-mut3": "status matcher treats a next run time of MaxInt64 as paused",
 "C12-r4-mut1": "per-job RWMutex held for the whole execution; PauseJob blocks holding the queue lock",
 "C12-r4-mut2": "jobs with identical fire times batched into one goroutine",
 "C12-r4-mut3": "loop executes the job itself when the context ends while it waits for a free worker (n+1 in progress)",
 "C13-r4-mut1": "a job paused during its retry wait is no longer retried",
 "C13-r4-mut2": "retry counter lives on the JobDetail and is reset only on success",
 "C13-r4-mut3": "recover moved to the goroutine boundary (a panic ends a pool worker)",
 "C14-r4-mut1": "fast path for readings in prev's zone period with an inclusive period end",
 "C14-r4-mut2": "`no DST this year` shortcut from the January and July offsets",
 "C14-r4-mut3": "a gap reading fires at the start of the zone period of `reading − prevOffset`",
 "C15-r4-mut1": "an empty Head() arms the maximal timer instead of RetryInterval",
 "C15-r4-mut2": "Size failures reuse a back-off deadline that is never cleared",
 "C15-r4-mut3": "PauseJob rolls back through ScheduleJob while holding the queue lock (self-deadlock)",
 "C16-r4-mut1": "FunctionJob stores the outcome only if no later-started execution has reported",
 "C16-r4-mut2": "ShellJob exit code taken from *exec.ExitError (stale code when the process never started)",
 "C16-r4-mut3": "CurlJob buffers the body eagerly, capped at 1 MiB",
 "C17-r4-mut1": "NewIsolatedJob flattens an already isolated job (two gates around one job)",
 "C17-r4-mut2": "early Store(false) plus the deferred one (a finished call reopens the gate of the next execution)",
 "C17-r4-mut3": "counter gate: a refused call in flight keeps the gate shut",
 "C18-r4-mut1": "SimpleLogger caches the prefix it last installed",
 "C18-r4-mut2": "levels compared by rank (level/4): thresholds between two named levels",
 "C18-r4-mut3": "SlogLogger de-duplicates keys, last value wins",
}
rows = []
for d in sorted(glob.glob(os.path.join(V, "seeded", "*", "meta.json"))):
    m = json.load(open(d))
    hist = [h.get("checks_run_before") or {} for h in m.get("history", [])]
    res = []
    for c, r in sorted(m.get("checks_run", {}).items()):
        if r["caught"]:
            res.append("%s%s" % (c, " (tie only: no-failing-input-found)" if r["no_failing_input_found"] else ""))
        else:
            res.append("~~%s~~ missed" % c)
    first_missed = any((not r.get("caught")) for h in hist[:1] for c, r in h.items() if c in m.get("checks_run", {}) and m["checks_run"][c]["caught"])
    note = "**strengthened** after an initial miss" if first_missed else ""
    ok = all(m.get(k) for k in ("builds", "suite_passes_with_patch", "demo_fails_with_patch", "demo_passes_on_clean_tree"))
    rows.append("| %s | %s | %s | %s | %s |" % (m["name"], WHAT.get(m["name"], ""), ", ".join(res), "yes" if ok else "partly (see meta.json)", note))
table = "| Seeded defect | Change | Caught by | Confirmed (builds, suite passes, demo fails with / passes without) | Note |\n|---|---|---|---|---|\n" + "\n".join(rows)
p = os.path.join(V, "DESIGN.md")
s = open(p).read()
a, b = "<!-- SEEDTABLE-BEGIN -->", "<!-- SEEDTABLE-END -->"
if a in s:
    s = s[:s.index(a) + len(a)] + "\n" + table + "\n" + s[s.index(b):]
    open(p, "w").write(s)
print(len(rows), "rows")
